/-
  Model of the table layer of pdb2sql (`pdb2sqlcore.get / update / update_column / add_column / _fix_chainID`,
  `pdb2sql_base.get_xyz / get_residues / get_chains / update_xyz`, `many2sql.get_all`) on top of a small model of
  SQLite: typed cells, rowid = position + 1, column affinity applied to bound parameters of `=` / `IN`.
  The functions follow the control flow of the source statement by statement (including behaviour the
  properties do not ask for).  Limits come from `Gen.Consts` (regenerated from the source on every run).
  Vocabulary (values, rows, columns) is `namespace Tbl` of `Spec/C03.lean`; nothing of `namespace Spec` is used.
-/
import PdbVerif.Spec.C03
import PdbVerif.Spec.C04
import PdbVerif.Gen.Consts
import PdbVerif.Py.List

namespace Model
open Tbl

/-- exception classes of the table layer (`fuel` = the bounded recursion ran out: never happens, see
    `Proofs/TableGet.lean`) -/
inductive Err
  | valueError | typeError | indexError | tooManyVars | operational | programming | systemExit
  | unmodelled (why : String) | fuel
  deriving DecidableEq, Repr, Inhabited

def Err.tag : Err → String
  | .valueError => "ValueError" | .typeError => "TypeError" | .indexError => "IndexError"
  | .tooManyVars => "ValueError:TooManyVars" | .operational => "Other:OperationalError"
  | .programming => "Other:ProgrammingError" | .systemExit => "Other:SystemExit"
  | .unmodelled w => "UNMODELLED:" ++ w | .fuel => "RecursionError"

/-! ## SQLite: affinity, comparison, SELECT -/

abbrev Aff := Decl

/-- SQL identifiers compare case-insensitively -/
def ciEq (a b : Py.Str) : Bool := Py.lower a == Py.lower b

def findTab (db : Db) (tn : Py.Str) : Option Tab := db.tabs.find? (fun t => ciEq t.name tn)

def rowidAliases : List Py.Str := ["rowid".toList, "oid".toList, "_rowid_".toList]

/-- the column an SQL identifier refers to -/
def sqlCol (db : Db) (k : Py.Str) : Option Col :=
  match StdCol.all.find? (fun c => ciEq c.pyName k) with
  | some c => some (.std c)
  | none =>
    match db.extraNames.findIdx? (fun n => ciEq n k) with
    | some i => some (.extra i)
    | none => if rowidAliases.contains (Py.lower k) then some .rowID else none

def affOfKind (k : Kind) : Aff := k.decl

def affOf (db : Db) : Col → Aff
  | .rowID => .integer
  | .std s => affOfKind s.kind
  | .extra k => (db.extra.getD k ⟨[], .numeric⟩).decl

/-- column affinity applied to a bound parameter before `=` / `IN` -/
def applyAff (a : Aff) (v : Val) : Val :=
  match a with
  | .text =>
    match v with
    | .int i => .text (textOfInt i)
    | .real q => .text (textOfReal q)
    | .text s => .text s
  | _ =>
    match v with
    | .text s => match numOfText s with
      | some q => .real q
      | none => .text s
    | w => w

/-- comparison of two stored values: numbers numerically (integer against real exactly), texts byte by byte,
    a number never equals a text -/
def cmpEq (a b : Val) : Bool :=
  match a, b with
  | .int i, .int j => i == j
  | .int i, .real q => (i : Rat) == q
  | .real p, .int j => p == (j : Rat)
  | .real p, .real q => p == q
  | .text s, .text t => s == t
  | _, _ => false

def sqlEq (aff : Aff) (stored bound : Val) : Bool := cmpEq stored (applyAff aff bound)

/-- a cell as SQL sees it: `rowid` = position + 1 -/
def sqlCell (c : Col) (p : Nat) (r : Row) : Val :=
  match c with
  | .rowID => .int ((p : Int) + 1)
  | c => cell c p r

/-- `col [NOT] IN (?, …, ?)` with its bound values -/
structure SqlCond where
  col : Col
  neg : Bool
  vals : List Val
  deriving DecidableEq, Repr

/-- the bound values of a condition after the column's affinity was applied (done once per statement) -/
def SqlCond.bound (db : Db) (c : SqlCond) : List Val := c.vals.map (applyAff (affOf db c.col))

def SqlCond.holds (c : SqlCond) (bound : List Val) (rp : Row × Nat) : Bool :=
  let stored := sqlCell c.col rp.2 rp.1
  (bound.any (fun b => cmpEq stored b)) != c.neg

/-- `WHERE c₁ AND c₂ AND …` -/
def sqlWhere (db : Db) (conds : List SqlCond) : Row × Nat → Bool :=
  let cb := conds.map (fun c => (c, c.bound db))
  fun rp => cb.all (fun x => x.1.holds x.2 rp)

/-- `SELECT cols FROM tab WHERE conds` (rows come back in rowid order) -/
def sqlSelect (db : Db) (tab : Tab) (cols : List Col) (conds : List SqlCond) : List (List Val) :=
  (tab.rows.zipIdx.filter (sqlWhere db conds)).map (fun rp => cols.map (fun c => sqlCell c rp.2 rp.1))

/-- the column list of a SELECT -/
def sqlCols (db : Db) (columns : Py.Str) : Except Err (List Col) :=
  if columns = "*".toList then .ok (starCols db.extraNames)
  else (Py.splitOn ',' columns).mapM (fun p =>
    match sqlCol db (Py.strip p) with
    | some c => .ok c
    | none => .error .operational)

/-! ## `pdb2sql.get` -/

inductive Result
  | data (items : List Item)
  | models (per : List (List Item))
  deriving DecidableEq, Repr, Inhabited

def modelKey : Py.Str := "model".toList

def hasModelKey (kw : List Kw) : Bool := kw.any (fun k => k.key = modelKey)

/-- `k.startswith('no_')` / `k[3:]` -/
def stripNo (k : Py.Str) : Bool × Py.Str :=
  if "no_".toList.isPrefixOf k then (true, k.drop 3) else (false, k)

def ratTrunc (q : Rat) : Int := if q ≥ 0 then q.floor else -((-q).floor)

/-- `int(v + 1)` -/
def pyIntPlus1 (v : Val) : Except Err Val :=
  match v with
  | .int i => .ok (.int (i + 1))
  | .real q => .ok (.int (ratTrunc (q + 1)))
  | .text _ => .error .typeError

/-- the loop over `kwargs.items()` up to the first over-long list: either all conditions with the number of
    bound values, or the position, key, negation flag and values of the first list longer than `max_sql_values` -/
inductive Scan
  | conds (cs : List SqlCond) (nvals : Nat)
  | long (idx : Nat) (key : Py.Str) (neg : Bool) (vs : List Val)
  deriving Repr

def mkCond (db : Db) (k : Py.Str) (neg : Bool) (vals : List Val) : Except Err SqlCond :=
  match sqlCol db k with
  | some c => .ok { col := c, neg := neg, vals := vals }
  | none => .error .operational

/-- `isinstance(v, list) and len(v) > max_sql_values` -/
def isLong : Arg → Bool
  | .list vs => vs.length > Gen.max_sql_values
  | .scalar _ => false

/-- the values bound for one condition: `int(v + 1)` on rowID conditions (list and scalar branch alike) -/
def scanVals (k : Py.Str) (vs : List Val) : Except Err (List Val) :=
  if k = rowIDName then vs.mapM pyIntPlus1 else .ok vs

def scan (db : Db) : List Kw → Except Err Scan
  | [] => .ok (.conds [] 0)
  | kw :: rest =>
    let nk := stripNo kw.key
    if isLong kw.arg then .ok (.long 0 kw.key nk.1 kw.arg.vals)
    else
      match scanVals nk.2 kw.arg.vals with
      | .error e => .error e
      | .ok vals =>
        match mkCond db nk.2 nk.1 vals with
        | .error e => .error e
        | .ok c =>
          match scan db rest with
          | .error e => .error e
          | .ok (.conds cs n) => .ok (.conds (c :: cs) (kw.arg.vals.length + n))
          | .ok (.long i k ng l) => .ok (.long (i + 1) k ng l)

/-- `data[i][index] -= 1` -/
def decr : Val → Val
  | .int i => .int (i - 1)
  | .real q => .real (q - 1)
  | .text s => .text s

/-- `if 'rowID' in columns: index = columns.split(',').index('rowID'); data[i][index] -= 1` -/
def fixRowID (columns : Py.Str) (data : List (List Val)) : Except Err (List (List Val)) :=
  if Py.strIn rowIDName columns then
    match (Py.splitOn ',' columns).idxOf? rowIDName with
    | none => .error .valueError                    -- `.index('rowID')`
    | some index => .ok (data.map (fun r => r.modify index decr))
  else .ok data

/-- `_format_get_output`, the tail of `get`: empty result, the −1 on a requested rowID column, flattening of
    one-column results -/
def finish (columns : Py.Str) (data : List (List Val)) : Except Err (List Item) :=
  match data with
  | [] => .ok []
  | r0 :: _ =>
    match fixRowID columns data with
    | .error e => .error e
    | .ok data' =>
      if r0.length = 1 then .ok (data'.map (fun r => .one (r.headD (.int 0))))
      else .ok (data'.map .many)

/-- `[v[i:i+n] for i in range(0, len(v), n)]` (fuel = `len(v)`; `n > 0`) -/
def chunksAux {α : Type} (n : Nat) : Nat → List α → List (List α)
  | 0, _ => []
  | f + 1, l => if l.isEmpty then [] else l.take n :: chunksAux n f (l.drop n)

def chunks {α : Type} (n : Nat) (l : List α) : List (List α) := chunksAux n l.length l

def intLt (a b : Int) : Bool := decide (a < b)

/-- a `get('rowID', …)` answer as a list of ints -/
def asInts : Result → Except Err (List Int)
  | .data items => items.mapM (fun it => match it with
      | .one (.int i) => .ok i
      | _ => .error (.unmodelled "rowID answer is not a flat list of ints"))
  | .models _ => .error (.unmodelled "nested answer where a flat one is expected")

def asData : Result → Except Err (List Item)
  | .data d => .ok d
  | .models _ => .error (.unmodelled "nested answer where a flat one is expected")

/-- `rows = index` / `rows &= index` / `rows |= index` on sets represented by lists -/
def combine (neg : Bool) (rows : Option (List Int)) (index : List Int) : Option (List Int) :=
  match rows with
  | none => some index
  | some rs => some (if neg then rs.filter (fun i => index.contains i) else rs ++ index)

def setKw (kw : List Kw) (idx : Nat) (key : Py.Str) (vc : List Val) : List Kw :=
  kw.set idx { key := key, arg := .list vc }

def validCols (db : Db) (columns : Py.Str) : Bool :=
  columns = "*".toList || (Py.splitOn ',' columns).all (fun i => db.colnames.contains (Py.strip i))

/-- `SELECT EXISTS(SELECT k FROM tablename)` does not raise -/
def keyOK (db : Db) (tn : Py.Str) (k : Py.Str) : Bool := (findTab db tn).isSome && (sqlCol db k).isSome

/-- the plain query once the conditions are built: combined-limit check, SELECT, tail of `get` -/
def runQuery (db : Db) (columns tn : Py.Str) (conds : List SqlCond) (nvals : Nat) : Except Err Result :=
  if nvals > Gen.SQLITE_LIMIT_VARIABLE_NUMBER then .error .tooManyVars
  else match findTab db tn with
    | none => .error .operational
    | some tab =>
      match sqlCols db columns with
      | .error e => .error e
      | .ok cols =>
        match finish columns (sqlSelect db tab cols conds) with
        | .error e => .error e
        | .ok items => .ok (.data items)

/-- the loop over the chunks of an over-long list: `rows` = rowIDs selected by the chunks so far -/
def chunkLoop (recGet : List Kw → Except Err Result) (kw : List Kw) (idx : Nat) (key : Py.Str) (neg : Bool) :
    List (List Val) → Option (List Int) → Except Err (Option (List Int))
  | [], rows => .ok rows
  | vc :: rest, rows =>
    match recGet (setKw kw idx key vc) with
    | .error e => .error e
    | .ok r =>
      match asInts r with
      | .error e => .error e
      | .ok index => chunkLoop recGet kw idx key neg rest (combine neg rows index)

/-- the data of the selected rows, `max_sql_values` rowIDs per `SELECT … WHERE rowID in (…)`, in table order -/
def fetchRows (db : Db) (tab : Tab) (cols : List Col) (sorted : List Int) : List (List Val) :=
  (chunks Gen.max_sql_values sorted).flatMap (fun c =>
    sqlSelect db tab cols [{ col := .rowID, neg := false, vals := c.map (fun r => Val.int (r + 1)) }])

/-- the per-model loop -/
def modelLoop (recGet : List Kw → Except Err Result) (kw : List Kw) : List Nat → Except Err (List (List Item))
  | [] => .ok []
  | m :: ms =>
    match recGet (kw ++ [{ key := modelKey, arg := .scalar (.int m) }]) with
    | .error e => .error e
    | .ok r =>
      match asData r with
      | .error e => .error e
      | .ok d =>
        match modelLoop recGet kw ms with
        | .error e => .error e
        | .ok ds => .ok (d :: ds)

/--
`pdb2sql.get(columns, tablename, **kwargs)`, recursion bounded by `fuel` (every recursive call of the source
is a call with `fuel - 1`).
-/
def getF : Nat → Db → Py.Str → Py.Str → List Kw → Except Err Result
  | 0, _, _, _, _ => .error .fuel
  | fuel + 1, db, columns, tn, kw =>
    -- check arguments format
    if !validCols db columns then .error .valueError
    -- one answer per model
    else if !hasModelKey kw && db.nModel > 0 then
      match modelLoop (fun kw' => getF fuel db columns tn kw') kw (List.range db.nModel) with
      | .error e => .error e
      | .ok per => .ok (.models per)
    else if kw.isEmpty then runQuery db columns tn [] 0
    -- check that all the keys exist
    else if !kw.all (fun k => keyOK db tn (stripNo k.key).2) then .error .valueError
    else
      match scan db kw with
      | .error e => .error e
      | .ok (.conds conds n) => runQuery db columns tn conds n
      | .ok (.long idx key neg vs) =>
        -- rows selected by each chunk together with the other conditions
        match chunkLoop (fun kw' => getF fuel db rowIDName tn kw') kw idx key neg (chunks Gen.max_sql_values vs) none with
        | .error e => .error e
        | .ok rows =>
          let sorted := sortDedup intLt (rows.getD [])
          -- the data of these rows in the order of the table
          match findTab db tn with
          | none => .error .operational
          | some tab =>
            match sqlCols db columns with
            | .error e => .error e
            | .ok cols =>
              match finish columns (fetchRows db tab cols sorted) with
              | .error e => .error e
              | .ok items => .ok (.data items)

/-- enough fuel: one level per keyword (each level removes one over-long list), one for the per-model
    dispatch, one for the plain query -/
def getFuel (kw : List Kw) : Nat := kw.length + 3

def get (db : Db) (columns tn : Py.Str) (kw : List Kw) : Except Err Result :=
  getF (getFuel kw) db columns tn kw

/-- `get_xyz` -/
def get_xyz (db : Db) (tn : Py.Str) (kw : List Kw) : Except Err Result := get db "x,y,z".toList tn kw

/-- distinct elements in order of first occurrence: `sorted(set(res), key=res.index)` -/
def firstOcc {α : Type} [DecidableEq α] : List α → List α
  | [] => []
  | a :: t => a :: (firstOcc t).filter (· ≠ a)

def itemRow : Item → Except Err (List Val)
  | .many vs => .ok vs
  | .one _ => .error (.unmodelled "flat answer for three columns")

def itemText : Item → Except Err Py.Str
  | .one (.text s) => .ok s
  | _ => .error (.unmodelled "chainID that is not a text")

/-- `get_residues` -/
def get_residues (db : Db) (tn : Py.Str) (kw : List Kw) : Except Err (List (List Val)) :=
  match get db "chainID,resName,resSeq".toList tn kw with
  | .error e => .error e
  | .ok (.models _) => .error .typeError                   -- tuples of lists are unhashable
  | .ok (.data items) =>
    match items.mapM itemRow with
    | .error e => .error e
    | .ok res => .ok (firstOcc res)

/-- `get_chains`: `sorted(set(chains))` -/
def get_chains (db : Db) (tn : Py.Str) (kw : List Kw) : Except Err (List Py.Str) :=
  match get db "chainID".toList tn kw with
  | .error e => .error e
  | .ok (.models _) => .error .typeError
  | .ok (.data items) =>
    match items.mapM itemText with
    | .error e => .error e
    | .ok cs => .ok (sortDedup strLt cs)

/-- `many2sql.get_all` -/
def get_all (db : Db) (columns : Py.Str) (kw : List Kw) : Except Err (List Result) :=
  db.tabs.mapM (fun t => get db columns t.name kw)

/-! ## modifications -/

/-- the value SQLite stores in a column of affinity `a` when `v` is written -/
def storeVal (a : Aff) (v : Val) : Val :=
  let intIfIntegral (q : Rat) : Val := if q.den = 1 then .int q.num else .real q
  match a with
  | .text => applyAff .text v
  | .real =>
    match v with
    | .int i => .real i
    | .real q => .real q
    | .text s => match numOfText s with | some q => .real q | none => .text s
  | _ =>
    match v with
    | .int i => .int i
    | .real q => intIfIntegral q
    | .text s => match numOfText s with | some q => intIfIntegral q | none => .text s

/-- `SET c = v` on one row -/
def setCell (db : Db) (c : Col) (v : Val) (r : Row) : Except Err Row :=
  match c with
  | .rowID => .error (.unmodelled "assignment to rowID renumbers the row")
  | .std s =>
    match setStd s (storeVal (affOfKind s.kind) v) r.atom with
    | some a => .ok { r with atom := a }
    | none => .error (.unmodelled "value of another storage class in a typed column")
  | .extra k =>
    if k < r.extra.length then .ok { r with extra := r.extra.set k (storeVal (affOf db (.extra k)) v) }
    else .error (.unmodelled "row without the added cell")

/-- `SET c₁=?, c₂=?, …` on one row, left to right -/
def setCells (db : Db) : List (Col × Val) → Row → Except Err Row
  | [], r => .ok r
  | (c, v) :: rest, r => do
    let r' ← setCell db c v r
    setCells db rest r'

def replaceTab (db : Db) (tn : Py.Str) (rows : Table) : Db :=
  { db with tabs := db.tabs.map (fun t => if ciEq t.name tn then { t with rows := rows } else t) }

/-- `UPDATE tn SET … WHERE rowID = rid` (rowid = position + 1; no such row: nothing happens) -/
def updateAt (db : Db) (tn : Py.Str) (assign : List (Col × Val)) (rid : Int) : Except Err Db :=
  match findTab db tn with
  | none => .error .operational
  | some tab =>
    if rid < 1 ∨ rid > tab.rows.length then .ok db
    else
      let p := (rid - 1).toNat
      match tab.rows[p]? with
      | none => .ok db
      | some r => do
        let r' ← setCells db assign r
        pure (replaceTab db tn (tab.rows.set p r'))

/-- `executemany(query, data)`: the statement is prepared first, then the rows are bound and executed one
    after the other; a row with the wrong number of values stops the loop with what was done so far -/
def execMany (db : Db) (tn : Py.Str) (cols : List Col) : List (List Val × Int) → Db × Except Err Unit
  | [] => (db, .ok ())
  | (vals, rid) :: rest =>
    if vals.length ≠ cols.length then (db, .error .programming)
    else match updateAt db tn (cols.zip vals) rid with
      | .error e => (db, .error e)
      | .ok db' => execMany db' tn cols rest

/-- `if ',' in columns: columns = columns.split(','); if not isinstance(columns, list): columns = [columns]` -/
def updNames (columns : Py.Str) : List Py.Str := if columns.contains ',' then Py.splitOn ',' columns else [columns]

/-- the body of `update` once the model is fixed -/
def updateCore (db : Db) (columns : Py.Str) (values : List (List Val)) (tn : Py.Str) (kw : List Kw) :
    Db × Except Err Unit :=
  -- parse the attribute
  let cols : List Py.Str := updNames columns
  -- check the size
  match values with
  | [] => (db, .error .indexError)                                  -- `len(values[0])`
  | _ :: _ =>
    if values.any (fun val => val.length ≠ cols.length) then (db, .error .valueError) else
    -- get the row ID of the selection
    match get db rowIDName tn kw >>= asInts with
    | .error e => (db, .error e)
    | .ok rowID =>
      if rowID.length ≠ values.length then (db, .error .valueError) else
      match cols.mapM (sqlCol db) with
      | none => (db, .error .operational)                           -- the UPDATE statement does not compile
      | some cs => execMany db tn cs (values.zip (rowID.map (· + 1)))

def validColsUpdate (db : Db) (columns : Py.Str) : Bool :=
  columns = "*".toList || (Py.splitOn ',' columns).all (fun i => db.colnames.contains i)

/-- the per-model loop of `update` -/
def updateModels (columns : Py.Str) (values : List (List Val)) (tn : Py.Str) (kw : List Kw) :
    List Nat → Db → Db × Except Err Unit
  | [], db => (db, .ok ())
  | m :: ms, db =>
    match updateCore db columns values tn (kw ++ [{ key := modelKey, arg := .scalar (.int m) }]) with
    | (db', .ok ()) => updateModels columns values tn kw ms db'
    | (db', .error e) => (db', .error e)

/-- `pdb2sql.update` -/
def update (db : Db) (columns : Py.Str) (values : List (List Val)) (tn : Py.Str) (kw : List Kw) :
    Db × Except Err Unit :=
  if !validColsUpdate db columns then (db, .error .valueError)
  else if !hasModelKey kw && db.nModel > 0 then updateModels columns values tn kw (List.range db.nModel) db
  else updateCore db columns values tn kw

/-- `int(ind)` -/
def pyInt (v : Val) : Except Err Int :=
  match v with
  | .int i => .ok i
  | .real q => .ok (ratTrunc q)
  | .text s => match Py.parseInt s with
    | .ok i => .ok i
    | .error _ => .error .valueError

/-- `pdb2sql.update_column` -/
def updateColumn (db : Db) (colname : Py.Str) (values : List Val) (index : Option (List Val)) (tn : Py.Str) :
    Db × Except Err Unit :=
  let data : Except Err (List (List Val × Int)) :=
    match index with
    | none => .ok (values.zipIdx.map (fun vi => ([vi.1], (vi.2 : Int) + 1)))
    | some idx => (values.zip idx).mapM (fun vi => do
        let i ← pyInt vi.2
        pure ([vi.1], i + 1))
  match data with
  | .error e => (db, .error e)
  | .ok d =>
    match findTab db tn, sqlCol db colname with
    | some _, some c => execMany db tn [c] d
    | _, _ => (db, .error .operational)

def isIdentChar (c : Char) : Bool := c.isAlphanum || c == '_'
def isIdent (s : Py.Str) : Bool :=
  match s with
  | [] => false
  | c :: _ => (c.isAlpha || c == '_') && s.all isIdentChar

def sqlKeywordsAsDefault : List Py.Str :=
  ["null".toList, "true".toList, "false".toList, "current_time".toList, "current_date".toList,
   "current_timestamp".toList]

/-- the literal `str(value)` denotes in `DEFAULT <literal>` -/
def defaultLit (value : Val) : Except Err Val :=
  match value with
  | .text s => if isIdent s && !sqlKeywordsAsDefault.contains (Py.lower s) then .ok (.text s)
               else .error (.unmodelled "default text that is not a bare word")
  | v => .ok v

/-- the database after `ALTER TABLE … ADD COLUMN name aff DEFAULT d` -/
def withColumn (db : Db) (tab : Tab) (name : Py.Str) (aff : Aff) (d : Val) : Db :=
  { db with tabs := [{ tab with rows := tab.rows.map (fun r => { r with extra := r.extra ++ [d] }) }],
            extra := db.extra ++ [{ name := name, decl := aff }] }

/-- `pdb2sql.add_column`: `ALTER TABLE tn ADD COLUMN 'name' type DEFAULT str(value)` -/
def addColumn (db : Db) (name coltype : Py.Str) (value : Val) (tn : Py.Str) : Db × Except Err Unit :=
  match db.tabs with
  | [tab] =>
    if !ciEq tab.name tn then (db, .error .operational)
    else if !isIdent name || !isIdent coltype then (db, .error (.unmodelled "column name or type that is not a plain identifier"))
    else if rowidAliases.contains (Py.lower name) then (db, .error (.unmodelled "added column that hides rowid"))
    else if (sqlCol db name).isSome then (db, .error .operational)      -- duplicate column name
    else
      match declOfType coltype with
      | none => (db, .error (.unmodelled "BLOB column"))
      | some aff =>
        match defaultLit value with
        | .error e => (db, .error e)
        | .ok v => (withColumn db tab name aff (storeVal aff v), .ok ())
  | _ => (db, .error (.unmodelled "add_column on a database with several tables"))

def defaultTable : Py.Str := "ATOM".toList

/-- `newID[ind] = letter`: IndexError outside the list; a negative index counts from the end -/
def setNewID (newID : List Val) (ind : Int) (letter : Val) : Except Err (List Val) :=
  let j : Int := if ind < 0 then ind + newID.length else ind
  if j < 0 ∨ j ≥ newID.length then .error .indexError else .ok (newID.set j.toNat letter)

/-- the loop of `_fix_chainID` that fills `newID` (`for ind in index: newID[ind] = ascii_uppercase[ic]`) -/
def fillNewID (db : Db) : List (Nat × Py.Str) → List Val → Except Err (List Val)
  | [], newID => .ok newID
  | (ic, chain) :: rest, newID =>
    match get db rowIDName defaultTable [{ key := "chainID".toList, arg := .scalar (.text chain) }] >>= asInts with
    | .error e => .error e
    | .ok index =>
      let letter : Val := .text [Char.ofNat (65 + ic)]
      match index.foldlM (fun acc ind => setNewID acc ind letter) newID with
      | .error e => .error e
      | .ok newID' => fillNewID db rest newID'

/-- `_fix_chainID` up to the final `update_column`: the new chain identifiers, one per atom -/
def fixChainIDNew (db : Db) : Except Err (List Val) :=
  match get db "chainID".toList defaultTable [] with
  | .error e => .error e
  | .ok (.models _) => .error .typeError                     -- `set` of lists
  | .ok (.data items) =>
    match items.mapM itemText with
    | .error e => .error e
    | .ok chainID =>
      let natom := chainID.length
      let ids := sortDedup strLt chainID
      if ids.length > 26 then .error .systemExit
      else fillNewID db (ids.zipIdx.map (fun ci => (ci.2, ci.1))) (List.replicate natom (.text []))

/-- `pdb2sql._fix_chainID` -/
def fixChainID (db : Db) : Db × Except Err Unit :=
  match fixChainIDNew db with
  | .error e => (db, .error e)
  | .ok newID => updateColumn db "chainID".toList newID none defaultTable

/-- one modification of a database object -/
def step (db : Db) : Op → Db × Except Err Unit
  | .update columns values tn kw => update db columns values tn kw
  | .updateXyz values tn kw => update db "x,y,z".toList values tn kw
  | .updateColumn c values index tn => updateColumn db c values index tn
  | .addColumn n ty v tn => addColumn db n ty v tn
  | .fixChainID => fixChainID db

/-- state after a history -/
def run (db : Db) (ops : List Op) : Db := ops.foldl (fun d op => (step d op).1) db

end Model
