/-
  The concrete text round trip of a derivation: every selected row is written by `data2pdb` (`Gen.data2pdb_line`,
  translated from the source) and the lines are parsed again by the record loop of `pdb2sql._create_table`
  (`Model.parse`, cluster A).  Added columns are not exported; the lines carry no ENDMDL record, so every atom
  comes back in model 0.
-/
import PdbVerif.Model.TableWorld
import PdbVerif.Model.Parse
import PdbVerif.Gen.Str

namespace Model
open Tbl

/-- `sql2pdb` of the rows, then `pdb2sql(lines)`; a row that cannot be written makes the real derivation raise —
    the total function returns the empty table there (never under the hypotheses of the theorems) -/
def textRoundtrip (T : Table) : Table :=
  match T.mapM (fun r => Gen.data2pdb_line r.atom) with
  | .error _ => []
  | .ok lines =>
    match Model.parse lines with
    | .error _ => []
    | .ok rows => rows.filterMap (fun row => (Py.Atom.ofRow row).map (fun a => ({ atom := a, extra := [] } : Row)))

end Model
