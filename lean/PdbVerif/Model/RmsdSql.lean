/-
  Data-flow models of `compute_irmsd_pdb2sql`, `get_izone_rowID`, `compute_lrmsd_pdb2sql` and `get_identical_atoms`
  (StructureSimilarity.py): the routines that work on the parsed tables.  See Model/RmsdCommon.lean.  Core Lean only.
-/
import PdbVerif.Model.RmsdCommon

namespace Model.Rmsd
open Py Model

/-- `['CA', 'C', 'N', 'O']` of `compute_lrmsd_pdb2sql` -/
def lrmsdSqlNames : List Str := Gen.lrmsd_sql_backbone.map String.toList

/-- the label `[chainID, resSeq, resName, name]` compared by `data_decoy.index(atom)` -/
abbrev Label := Str × Int × Str × Str
def labelOf (a : Atom) : Label := (a.chainID, a.resSeq, a.resName, a.name)

/-- `get_izone_rowID(sql, izone, return_only_backbone_atoms=True)`:
    `for chainID, resSeq in resData.items(): index += sql.get('rowID', chainID=chainID, resSeq=resSeq, name=[C,CA,N,O])` -/
def izoneRowID (t : List Atom) (zone : Zone) : List Nat :=
  zone.flatMap (fun e =>
    (t.zipIdx.filter (fun r => decide (r.1.chainID = e.1) && e.2.contains r.1.resSeq &&
      decide (r.1.name ∈ zoneNames))).map (·.2))

/-- `chains[i]` -/
def chainAt (chains : List Str) (i : Nat) : Except Err Str :=
  match chains[i]? with
  | some c => .ok c
  | none => .error .indexError

/-- the loop over `data_contact_ref`: `data_decoy.index(atom)` (first match), atoms missing from the decoy are
    removed from both lists -/
def pairByIndex (tdec : List Atom) (refRows : List IRow) : List Pair :=
  refRows.filterMap (fun r =>
    match tdec.find? (fun d => decide (labelOf d = labelOf r.1)) with
    | some d => some (ptOf d, ptOf r.1)
    | none => none)

/-- `compute_irmsd_pdb2sql(cutoff, method, izone)`; `izone = none` (computed) or the lines of an existing zone file -/
def irmsdSql (tdec tref : Except Err (List Atom)) (izone : Option (List Str)) (cutoff : Rat) : Outcome :=
  Outcome.ofExcept do
  -- sql_decoy = interface(self.decoy); sql_ref = interface(self.ref)
  let td ← tdec
  let tr ← tref
  let chainsDecoy := getChains td
  let chainsRef := getChains tr
  if chainsDecoy ≠ chainsRef then throw Err.valueError
  let indexContactRef ←
    match izone with
    | none => do
      let c0 ← chainAt chainsRef 0
      let c1 ← chainAt chainsRef 1
      let contact ← contactSets tr (izoneArgs cutoff c0 c1)
      -- index_contact_ref = sql_ref.get('rowID', rowID=index_contact_ref, name=sql_ref.backbone_atoms)
      pure ((backboneRowsAt tr (flattenContacts contact)).map (·.2))
    | some lines => do
      let zone ← readZone lines
      pure (izoneRowID tr zone)
  -- xyz_contact_ref / data_contact_ref = sql_ref.get(…, rowID=index_contact_ref): rows in table order
  let refRows := rowsAt tr indexContactRef
  let pairs := pairByIndex td refRows
  -- if len(chain_decoy) < 1 or len(chain_ref) < 1: raise ValueError
  if pairs.length = 0 then throw Err.valueError
  pure (.value pairs pairs)

/-- `get_identical_atoms(db1, db2, chain, name=…)`: keys shared by both selections (a Python `set`: the iteration
    order is not determined; the model lists them in key order), each looked up with
    `SELECT x,y,z from ATOM WHERE chainID=? AND resSeq=? and name=?` → first row -/
def identicalAtoms (tdec tref : List Atom) (chain : Str) (names : List Str) : Except Err (List Pair) :=
  let sel (t : List Atom) : List Key :=
    (t.filter (fun a => decide (a.chainID = chain) && decide (a.name ∈ names))).map keyOf
  let data1 := sel tdec
  let data2 := sel tref
  let shared := sortedSet keyLt (data1.filter (fun k => data2.contains k))
  shared.mapM (fun k =>
    match tdec.find? (fun a => decide (keyOf a = k)), tref.find? (fun a => decide (keyOf a = k)) with
    | some d, some r => .ok (ptOf d, ptOf r)
    | _, _ => .error .indexError)

/-- What the tail of `compute_lrmsd_pdb2sql` does with the shapes of its arguments (NumPy arrays or lists):
    no fitting point → the translation is a scalar `nan` and `any(p0 > eps)` raises `TypeError`; different numbers
    of fitting points → `ValueError`; no evaluation point → `xyz_decoy_short += tr_decoy` cannot be broadcast. -/
def kernelSql (fitD fitR evalD evalR : List Pt) : Outcome :=
  if fitD.length = 0 ∧ fitR.length = 0 then .err .typeError
  else if fitD.length = 0 ∨ fitR.length = 0 then .err (.unmodelled "one empty fitting set")
  else if evalD.length = 0 ∨ evalR.length = 0 then .err .valueError
  else if fitD.length ≠ fitR.length then .err .valueError
  else if evalD.length = evalR.length then .value (fitD.zip fitR) (evalD.zip evalR)
  else if evalD.length = 1 ∨ evalR.length = 1 then .err (.unmodelled "numpy broadcasts a single point")
  else .err .valueError

/-- `compute_lrmsd_pdb2sql(exportpath=None, method)` with the default selection -/
def lrmsdSql (tdec tref : Except Err (List Atom)) (enforce : Bool) : Outcome := Outcome.ofExcept do
  let names := lrmsdSqlNames
  let td ← tdec
  let tr ← tref
  let chainsDecoy := getChains td
  let chainsRef := getChains tr
  if chainsDecoy ≠ chainsRef then throw Err.valueError
  let chain1 ← chainAt chainsDecoy 0
  let chain2 ← chainAt chainsDecoy 1
  -- (the positional `sql.get('x,y,z', chainID=…)` results are overwritten below: they do not reach the kernel)
  -- self.check_residues(**kwargs): raises when enforcement is on, otherwise only warns
  let _ ← checkResidues td tr (some names) enforce
  -- xyz_decoy_A, xyz_ref_A = get_identical_atoms(sql_decoy, sql_ref, chain1); same for chain2
  let a ← identicalAtoms td tr chain1 names
  let b ← identicalAtoms td tr chain2 names
  let (aD, aR, bD, bR) := (a.map (·.1), a.map (·.2), b.map (·.1), b.map (·.2))
  -- long chain: atom counts of the reference, first chain when equal
  let nA := (chainRows tr chain1).length
  let nB := (chainRows tr chain2).length
  if nA ≥ nB then pure (kernelSql aD aR bD bR) else pure (kernelSql bD bR aD aR)

end Model.Rmsd
