/-
  Hand model of `pdb2sql/align.py` (cluster D, property C18).  `_align_along_axis` is read from the
  translated table `Gen.align_steps` (axis vector and angle expression of each successive
  `rot_xyz_around_axis` call); the five angle expressions occurring there are interpreted symbolically, so
  that the same model runs over `Rat` on the observed trig values of (phi, theta) and is reasoned about
  over ℝ with `Real.cos`/`Real.sin`.  `np.linalg.eigh`, `np.arctan2`, `np.arccos` are contracts.
  Core Lean only.
-/
import PdbVerif.Model.Transform

namespace Model
open Py

/-- the angle expressions occurring in `_align_along_axis` -/
inductive AngleExpr
  | negPhi            -- "-phi"
  | halfPiMinusTheta  -- "np.pi / 2 - theta"
  | halfPiMinusPhi    -- "np.pi / 2 - phi"
  | thetaMinusHalfPi  -- "theta - np.pi / 2"
  | negTheta          -- "-theta"
  deriving DecidableEq, Repr

def parseAngle (s : String) : Option AngleExpr :=
  if s = "-phi" then some .negPhi
  else if s = "np.pi / 2 - theta" then some .halfPiMinusTheta
  else if s = "np.pi / 2 - phi" then some .halfPiMinusPhi
  else if s = "theta - np.pi / 2" then some .thetaMinusHalfPi
  else if s = "-theta" then some .negTheta
  else none

/-- the steps of `_align_along_axis(xyz, axis, phi, theta)` for one target axis, read from the source -/
def alignSteps (axis : String) : Option (List ((Int × Int × Int) × AngleExpr)) :=
  match Gen.align_steps.find? (fun p => p.1 = axis) with
  | none => none                                        -- raise ValueError('axis should be x, y ,or z')
  | some (_, steps) => steps.mapM (fun st => (parseAngle st.2).map (fun e => (st.1, e)))

section
variable {α : Type} [Add α] [Sub α] [Mul α] [Neg α] [Div α] [NatCast α] [IntCast α]
  [OfNat α 0] [OfNat α 1] [OfNat α 2]

/-- (cos, sin) of an angle expression from (cos φ, sin φ, cos θ, sin θ) -/
def AngleExpr.cs (cp sp ct st : α) : AngleExpr → α × α
  | .negPhi => (cp, -sp)
  | .halfPiMinusTheta => (st, ct)
  | .halfPiMinusPhi => (sp, cp)
  | .thetaMinusHalfPi => (st, -ct)
  | .negTheta => (ct, -st)

/-- the rotation matrix of one step: `rot_xyz_around_axis(xyz, np.array([ux, uy, uz]), angle)` -/
def stepMat (cp sp ct st : α) (step : (Int × Int × Int) × AngleExpr) : Mat3 α :=
  let cs := step.2.cs cp sp ct st
  Gen.rodrigues cs.1 cs.2 ((step.1.1 : Int) : α) ((step.1.2.1 : Int) : α) ((step.1.2.2 : Int) : α)

/-- the successive matrices for a target axis -/
def alignMats (cp sp ct st : α) (axis : String) : Option (List (Mat3 α)) :=
  (alignSteps axis).map (fun steps => steps.map (stepMat cp sp ct st))

/-- `xyz = rot_xyz_around_axis(xyz, …)` repeated: each call rotates about the centroid of its input -/
def applyMats (mats : List (Mat3 α)) (X : List (Vec3 α)) : List (Vec3 α) :=
  mats.foldl (fun X M => rotate M none X) X

/-- the product of the successive matrices (last applied on the left) -/
def composeMats (mats : List (Mat3 α)) : Mat3 α :=
  mats.foldl (fun acc M => Mat3.mul M acc) Mat3.one

/-- `get_rotation_angle(v)`: what the theorems assume of `phi = arctan2(y, x)`, `theta = arccos(z / r)`,
    `r = ‖v‖`, through their cosines and sines -/
structure SphericalContract (v : Vec3 α) (r cp sp ct st : α) : Prop where
  x_eq : v.x = r * st * cp
  y_eq : v.y = r * st * sp
  z_eq : v.z = r * ct
  phi_unit : cp * cp + sp * sp = 1
  theta_unit : ct * ct + st * st = 1

end

/-- every row selected -/
def selAll : Sel := fun _ _ => true

/-- `align_pca_vect(sql, vect, axis)` given the trig values of `phi, theta = get_rotation_angle(vect)`:
    `xyz = sql.get('x,y,z'); xyz = _align_along_axis(xyz, axis, phi, theta); sql.update('x,y,z', xyz)` -/
def alignPcaVect (cp sp ct st : Rat) (axis : String) (db : List Atom) : Except Err (List Atom) :=
  match alignMats cp sp ct st axis with
  | none => .error .valueError
  | some mats =>
    let xyz := getXYZ selAll db
    if xyz.length = 0 then .error (.unmodelled "empty structure")
    else updateXYZ selAll (applyMats mats xyz) db

/-- `dict_plane = {'xy': 'z', 'xz': 'y', 'yz': 'x'}` of `align_interface` -/
def planeAxis (plane : String) : Option String :=
  if plane = "xy" then some "z" else if plane = "xz" then some "y" else if plane = "yz" then some "x" else none

end Model
