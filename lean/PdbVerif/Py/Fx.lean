/-
  Py.Fx — runtime of the EFFECT translation (hand-written, fixed; core Lean only).

  The file- and connection-handling functions of the library are translated statement by statement
  (py/translate_ext_fx.py -> Gen/Fx.lean, namespace `GenF`) into PROGRAMS over the explicit effect signature below:
  a free monad `Prog P C α` whose nodes are the effectful calls of the Python source, with the arguments they are
  called with, in the order they are made; the continuation of a node is a function of what the call returns.

      os.path.isfile(p)                 isfile p        : Bool
      os.path.exists(p)                 pathExists p    : Bool
      os.remove(p)                      remove p
      sqlite3.connect(p | ':memory:')   connect db      : Conn        (`db = none` is ':memory:')
      conn.cursor() / commit() / close()  cursor c / commit c / close c
      open(p, 'w' | 'a' | 'wb')         openw p mode    : File
      f.write(x) / pickle.dump(x, f)    write f chunk
      f.close() / end of `with`         fclose f
      tempfile.mkstemp(dir, prefix, suffix)   mkstemp dir prefix suffix : the name that was created (the descriptor
                                         is identified with that name; `os.fdopen(fd, 'w')` makes a `File` of it)
      os.replace(src, dst)              replace src dst
      open(p, 'r') + f.readlines()      readlines p     : List C
      raise E                           raise e

  `P` = paths, `C` = chunks of written / read text.  Nothing here says what an effect DOES: that is the business of
  the interpretations — `Prog.events` below (the calls with their arguments, for the comparison with the recorded real
  traces), and `Proofs/GenFxSem.lean` (into the effect programs of `Spec.C16` and into the store of `Model.C20`).
-/
import PdbVerif.Py.Str

namespace Py.Fx

/-- mode of `open` / `os.fdopen` for a file that is written -/
inductive Mode | w | a | wb
  deriving DecidableEq, Repr

def Mode.tag : Mode → String
  | .w => "w" | .a => "a" | .wb => "wb"

/-- an `sqlite3.Connection`: the database it was opened on (`none` = ':memory:') -/
structure Conn (P : Type) where
  db : Option P
  deriving DecidableEq, Repr

/-- a cursor of a connection -/
structure Cursor (P : Type) where
  db : Option P
  deriving DecidableEq, Repr

/-- a file object opened for writing -/
structure File (P : Type) where
  path : P
  mode : Mode
  deriving DecidableEq, Repr

/-- effect programs -/
inductive Prog (P C : Type) (α : Type) where
  | pure (a : α)
  | raise (e : Py.Err)
  | isfile (p : P) (k : Bool → Prog P C α)
  | pathExists (p : P) (k : Bool → Prog P C α)
  | remove (p : P) (k : Prog P C α)
  | connect (db : Option P) (k : Prog P C α)
  | cursor (db : Option P) (k : Prog P C α)
  | commit (db : Option P) (k : Prog P C α)
  | close (db : Option P) (k : Prog P C α)
  | openw (p : P) (m : Mode) (k : Prog P C α)
  | write (p : P) (chunk : C) (k : Prog P C α)
  | fclose (p : P) (k : Prog P C α)
  | mkstemp (dir : P) (pre suf : Py.Str) (k : P → Prog P C α)
  | replace (src dst : P) (k : Prog P C α)
  | readlines (p : P) (k : List C → Prog P C α)

section
variable {P C : Type} {α β : Type}

def Prog.bind : Prog P C α → (α → Prog P C β) → Prog P C β
  | .pure a, f => f a
  | .raise e, _ => .raise e
  | .isfile p k, f => .isfile p (fun b => (k b).bind f)
  | .pathExists p k, f => .pathExists p (fun b => (k b).bind f)
  | .remove p k, f => .remove p (k.bind f)
  | .connect d k, f => .connect d (k.bind f)
  | .cursor d k, f => .cursor d (k.bind f)
  | .commit d k, f => .commit d (k.bind f)
  | .close d k, f => .close d (k.bind f)
  | .openw p m k, f => .openw p m (k.bind f)
  | .write p c k, f => .write p c (k.bind f)
  | .fclose p k, f => .fclose p (k.bind f)
  | .mkstemp d a b k, f => .mkstemp d a b (fun n => (k n).bind f)
  | .replace s d k, f => .replace s d (k.bind f)
  | .readlines p k, f => .readlines p (fun c => (k c).bind f)

instance : Monad (Prog P C) where
  pure := .pure
  bind := Prog.bind

/-- `try: m finally: fin` — `fin` runs on the way out of `m`, also when `m` raises (the exception then goes on) -/
def Prog.finally_ : Prog P C α → Prog P C Unit → Prog P C α
  | .pure a, fin => fin.bind (fun _ => .pure a)
  | .raise e, fin => fin.bind (fun _ => .raise e)
  | .isfile p k, fin => .isfile p (fun b => (k b).finally_ fin)
  | .pathExists p k, fin => .pathExists p (fun b => (k b).finally_ fin)
  | .remove p k, fin => .remove p (k.finally_ fin)
  | .connect d k, fin => .connect d (k.finally_ fin)
  | .cursor d k, fin => .cursor d (k.finally_ fin)
  | .commit d k, fin => .commit d (k.finally_ fin)
  | .close d k, fin => .close d (k.finally_ fin)
  | .openw p m k, fin => .openw p m (k.finally_ fin)
  | .write p c k, fin => .write p c (k.finally_ fin)
  | .fclose p k, fin => .fclose p (k.finally_ fin)
  | .mkstemp d a b k, fin => .mkstemp d a b (fun n => (k n).finally_ fin)
  | .replace s d k, fin => .replace s d (k.finally_ fin)
  | .readlines p k, fin => .readlines p (fun c => (k c).finally_ fin)

/-! ### the calls, as the generated code writes them -/

/-- a value of the pure translated code (`Except Py.Err`) inside a program: an error is a `raise` -/
def liftE : Except Py.Err α → Prog P C α
  | .ok a => .pure a
  | .error e => .raise e

def raise (e : Py.Err) : Prog P C α := .raise e
def isfile (p : P) : Prog P C Bool := .isfile p .pure
def pathExists (p : P) : Prog P C Bool := .pathExists p .pure
def remove (p : P) : Prog P C Unit := .remove p (.pure ())
/-- `sqlite3.connect(p)` -/
def connect (p : P) : Prog P C (Conn P) := .connect (some p) (.pure ⟨some p⟩)
/-- `sqlite3.connect(':memory:')` -/
def connectMemory : Prog P C (Conn P) := .connect none (.pure ⟨none⟩)
def cursor (c : Conn P) : Prog P C (Cursor P) := .cursor c.db (.pure ⟨c.db⟩)
def commit (c : Conn P) : Prog P C Unit := .commit c.db (.pure ())
def close (c : Conn P) : Prog P C Unit := .close c.db (.pure ())
/-- `open(p, mode)` for writing -/
def openw (p : P) (m : Mode) : Prog P C (File P) := .openw p m (.pure ⟨p, m⟩)
def write (f : File P) (chunk : C) : Prog P C Unit := .write f.path chunk (.pure ())
def fclose (f : File P) : Prog P C Unit := .fclose f.path (.pure ())
/-- `tempfile.mkstemp(dir=…, prefix=…, suffix=…)`: `(fd, name)`; the descriptor is identified with the name -/
def mkstemp (dir : P) (pre suf : Py.Str) : Prog P C (P × P) := .mkstemp dir pre suf (fun n => .pure (n, n))
/-- `os.fdopen(fd, mode)`: a file object on the descriptor (no effect of its own) -/
def fdopen (fd : P) (m : Mode) : File P := ⟨fd, m⟩
def replace (src dst : P) : Prog P C Unit := .replace src dst (.pure ())
/-- `with open(p, 'r') as f: data = f.readlines()` -/
def readlines (p : P) : Prog P C (List C) := .readlines p .pure

/-- `with <file> as f: body` — the file is closed on the way out, also when the body raises -/
def withFile (f : File P) (body : File P → Prog P C α) : Prog P C α := (body f).finally_ (fclose f)

/-- `for x in xs: body` with loop-carried variables `acc` -/
def forEach {σ ι : Type} (xs : List ι) (init : σ) (body : σ → ι → Prog P C σ) : Prog P C σ := xs.foldlM body init

/-- `self` of a `pdb2sql` object as far as the connection handling reads and writes it
    (`conn`, `c` = `none`: the attribute does not exist yet — reading it is an AttributeError) -/
structure Self (P : Type) where
  sqlfile : Option P
  verbose : Bool := false
  fix_chainID : Bool := false
  conn : Option (Conn P) := none
  c : Option (Cursor P) := none
  deriving Repr

/-- reading an attribute that may not exist -/
def attr (o : Option α) : Prog P C α :=
  match o with
  | some a => .pure a
  | none => .raise (.unmodelled "AttributeError")

/-- an argument that must not be `None` (`os.path.isfile(None)`, `sqlite3.connect(None)`, … raise TypeError) -/
def need (o : Option α) : Prog P C α :=
  match o with
  | some a => .pure a
  | none => .raise .typeError

/-- `sep.join(xs)` -/
def joinStr (sep : Py.Str) : List Py.Str → Py.Str
  | [] => []
  | [x] => x
  | x :: y :: r => x ++ sep ++ joinStr sep (y :: r)

/-! ### posixpath -/

/-- `os.path.split(p)` (posixpath): head = everything before the last '/', stripped of trailing slashes unless it
    consists of slashes only; tail = everything after the last '/' -/
def splitPath (p : Py.Str) : Py.Str × Py.Str :=
  let tailRev := p.reverse.takeWhile (· != '/')
  let headRaw := (p.reverse.drop tailRev.length).reverse
  let head := if headRaw.all (· == '/') then headRaw else (headRaw.reverse.dropWhile (· == '/')).reverse
  (head, tailRev.reverse)

/-- `x or y` for strings -/
def strOr (x y : Py.Str) : Py.Str := if x.isEmpty then y else x

/-! ### the calls of a run, with their arguments (for the comparison with the recorded real traces) -/

inductive Event (P C : Type)
  | isfile (p : P) (b : Bool)
  | pathExists (p : P) (b : Bool)
  | remove (p : P)
  | connect (db : Option P)
  | cursor (db : Option P)
  | commit (db : Option P)
  | close (db : Option P)
  | openw (p : P) (m : Mode)
  | write (p : P) (chunk : C)
  | fclose (p : P)
  | mkstemp (dir : P) (pre suf : Py.Str) (name : P)
  | replace (src dst : P)
  | readlines (p : P)
  deriving Repr

/-- a small concrete world for running a program: which files exist and what they hold, and the name `mkstemp` picks -/
structure World (P C : Type) where
  files : List (P × List C)
  tmpName : P → Py.Str → Py.Str → P

variable [DecidableEq P]

def World.get (w : World P C) (p : P) : Option (List C) := (w.files.find? (·.1 == p)).map (·.2)
def World.del (w : World P C) (p : P) : World P C := { w with files := w.files.filter (fun x => !(x.1 == p)) }
def World.put (w : World P C) (p : P) (c : List C) : World P C := { w.del p with files := (w.del p).files ++ [(p, c)] }

/-- run a program in a world: the events, the final world, the outcome.  A written chunk reaches the file at once
    (the order of the calls is what is compared; buffering is a matter of the interpretations). -/
def Prog.run : Prog P C α → World P C → List (Event P C) × World P C × Except Py.Err α
  | .pure a, w => ([], w, .ok a)
  | .raise e, w => ([], w, .error e)
  | .isfile p k, w => let r := (k (w.get p).isSome).run w; (.isfile p (w.get p).isSome :: r.1, r.2)
  | .pathExists p k, w => let r := (k (w.get p).isSome).run w; (.pathExists p (w.get p).isSome :: r.1, r.2)
  | .remove p k, w =>
    match w.get p with
    | some _ => let r := k.run (w.del p); (.remove p :: r.1, r.2)
    | none => ([.remove p], w, .error .fileNotFound)
  | .connect d k, w =>
    let w' := match d with
      | some p => (match w.get p with | some _ => w | none => w.put p [])
      | none => w
    let r := k.run w'; (.connect d :: r.1, r.2)
  | .cursor d k, w => let r := k.run w; (.cursor d :: r.1, r.2)
  | .commit d k, w => let r := k.run w; (.commit d :: r.1, r.2)
  | .close d k, w => let r := k.run w; (.close d :: r.1, r.2)
  | .openw p m k, w =>
    let w' := match m, w.get p with
      | .a, some _ => w
      | _, _ => w.put p []
    let r := k.run w'; (.openw p m :: r.1, r.2)
  | .write p c k, w =>
    let w' := match w.get p with
      | some old => w.put p (old ++ [c])
      | none => w
    let r := k.run w'; (.write p c :: r.1, r.2)
  | .fclose p k, w => let r := k.run w; (.fclose p :: r.1, r.2)
  | .mkstemp d a b k, w =>
    let n := w.tmpName d a b
    let r := (k n).run (w.put n []); (.mkstemp d a b n :: r.1, r.2)
  | .replace s d k, w =>
    match w.get s with
    | some c => let r := k.run ((w.del s).put d c); (.replace s d :: r.1, r.2)
    | none => ([.replace s d], w, .error .fileNotFound)
  | .readlines p k, w =>
    match w.get p with
    | some c => let r := (k c).run w; (.readlines p :: r.1, r.2)
    | none => ([.readlines p], w, .error .fileNotFound)

end
end Py.Fx
