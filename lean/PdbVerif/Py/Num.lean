/-
  Numbers: Python `int()`/`float()` on the decimal grammar the models support, exact
  decimal rendering (`'{:.kf}'.format`, `str(int)`), round-half-even.  A Python float is
  modelled by the exact rational it denotes (core `Rat`).  No Mathlib.
-/
import PdbVerif.Py.Str

namespace Py

def digitChar (n : Nat) : Char := Char.ofNat (48 + n % 10)

/-- decimal digits of a natural number, most significant first (`str(n)`). -/
def decDigits (n : Nat) : Str :=
  if h : n < 10 then [digitChar n] else decDigits (n / 10) ++ [digitChar (n % 10)]
termination_by n
decreasing_by omega

/-- `str(i)` for an int. -/
def intStr (i : Int) : Str :=
  if i < 0 then '-' :: decDigits i.natAbs else decDigits i.natAbs

/-- value of a digit string (no validation). -/
def digitsVal (s : Str) : Nat := s.foldl (fun acc c => acc * 10 + digitVal c) 0

/-- Python allows single underscores *between* digits in numeric literals passed to int()/float(). -/
def validDigitRun : Str → Bool
  | [] => false
  | c :: cs => isDigit c && go cs
where
  go : Str → Bool
    | [] => true
    | '_' :: d :: rest => isDigit d && go rest
    | ['_'] => false
    | d :: rest => isDigit d && go rest

def stripUnderscores (s : Str) : Str := s.filter (· != '_')

def splitSign (s : Str) : Bool × Str :=
  match s with
  | '-' :: r => (true, r)
  | '+' :: r => (false, r)
  | r => (false, r)

/-- `int(s)` for a str: surrounding whitespace, optional sign, digits (underscore-separated). -/
def parseInt (s : Str) : Except Err Int :=
  let t := strip s
  let (neg, body) := splitSign t
  if validDigitRun body then
    let v : Int := digitsVal (stripUnderscores body)
    .ok (if neg then -v else v)
  else .error .valueError

def pow10 (k : Nat) : Nat := 10 ^ k

/-- mantissa `d+[.d*]` or `.d+` → exact rational; `none` if malformed. -/
def parseMantissa (m : Str) : Option Rat :=
  match splitOn '.' m with
  | [ip] => if validDigitRun ip then some (digitsVal (stripUnderscores ip) : Nat) else none
  | [ip, fp] =>
    let okI := ip.isEmpty || validDigitRun ip
    let okF := fp.isEmpty || validDigitRun fp
    if okI && okF && !(ip.isEmpty && fp.isEmpty) then
      let fpd := stripUnderscores fp
      let i : Nat := digitsVal (stripUnderscores ip)
      let f : Nat := digitsVal fpd
      some ((i : Rat) + mkRat f (pow10 fpd.length))
    else none
  | _ => none

def lowerAscii (s : Str) : Str := s.map Char.toLower

/--
`float(s)` for a str, as an exact rational: surrounding whitespace, sign, decimal mantissa, optional
exponent.  The value returned is the *decimal* value; the double Python builds is the nearest double
to it (the harness compares with `float(Fraction(..))`, which is correctly rounded).
`inf`/`nan` spellings are accepted by Python and are outside the model (`unmodelled`).
-/
def parseFloat (s : Str) : Except Err Rat :=
  let t := strip s
  let (neg, body) := splitSign t
  let lb := lowerAscii body
  if lb == "inf".toList || lb == "infinity".toList || lb == "nan".toList then
    .error (.unmodelled "nonfinite")
  else
    let (mant, exp?) : Str × Option Str :=
      match splitOn 'e' lb with
      | [m] => (m, none)
      | [m, e] => (m, some e)
      | _ => ([], none)
    match parseMantissa mant with
    | none => .error .valueError
    | some q =>
      match exp? with
      | none => .ok (if neg then -q else q)
      | some e =>
        let (eneg, eb) := splitSign e
        if validDigitRun eb then
          let ev := digitsVal (stripUnderscores eb)
          let q' := if eneg then q / (pow10 ev : Nat) else q * (pow10 ev : Nat)
          .ok (if neg then -q' else q')
        else .error .valueError

/-- round half to even on an exact rational (CPython's float formatting / `round` on the exact binary value). -/
def roundHE (y : Rat) : Int :=
  let f := y.floor
  let r := y - f
  if r < 1/2 then f else if 1/2 < r then f + 1 else if f % 2 = 0 then f else f + 1

def zeroPad (k : Nat) (s : Str) : Str := List.replicate (k - s.length) '0' ++ s

/-- `'{:.kf}'.format(x)` for a finite float denoting the rational `x` (sign of -0.0 not modelled). -/
def fmtFixed (x : Rat) (k : Nat) : Str :=
  let n := roundHE (x * (pow10 k : Nat))
  let m := n.natAbs
  let ip := decDigits (m / pow10 k)
  let body := if k = 0 then ip else ip ++ ['.'] ++ zeroPad k (decDigits (m % pow10 k))
  if x < 0 then '-' :: body else body

/-- `'{:>w.kf}'.format(x)` -/
def fmtFloatR (w k : Nat) (x : Rat) : Str := rjust w (fmtFixed x k)

/-- `round(x, k)` as an exact decimal rational (the double returned is the nearest double to it). -/
def round (x : Rat) (k : Nat) : Rat := mkRat (roundHE (x * (pow10 k : Nat))) (pow10 k)

/-- `str(x)` / `'{}'.format(x)` for an int-valued cell. -/
def fmtIntR (w : Nat) (i : Int) : Str := rjust w (intStr i)

end Py
