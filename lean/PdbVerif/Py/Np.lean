/-
  The NumPy operations the glue kernels of superpose.py / transform.py / align.py / get_rmsd use, on the typed
  shapes the kernel translator (`/verif/py/translate_ext_kernels.py`) infers:

      Scalar = α      Vec3 = `Vec3 α`      Mat3 = `Mat3 α`      Points (n×3) = `List (Vec3 α)` (one row per point)
      PointsT (3×n, the transpose of an n×3 array) = `PointsT α` (stored by columns)

  The generated file `Gen/Kernels.lean` only *calls* these; what each NumPy call means is fixed here, once, by hand
  (part of the runtime model, like `Py/Mat.lean`).  Explicit operation classes, core Lean only.  Where NumPy raises on
  a shape mismatch (`P - Q`, `np.dot(P.T, Q)` with different row counts) the definitions below pair rows up to the
  shorter array; the kernels compare the shapes before they get there.
-/
import PdbVerif.Py.Mat

namespace Py.Np

/-- a 3×n array, the transpose of an n×3 array of points, stored by columns -/
structure PointsT (α : Type) where
  cols : List (Vec3 α)

section
variable {α : Type}

/-- `X.T` for an n×3 array -/
def T (X : List (Vec3 α)) : PointsT α := ⟨X⟩

/-- `Y.T` for a 3×n array -/
def PointsT.T (Y : PointsT α) : List (Vec3 α) := Y.cols

/-- `X.shape` -/
def shape (X : List (Vec3 α)) : Nat × Nat := (X.length, 3)

/-- `np.sum(X, 0)` -/
def sum0 [Add α] [OfNat α 0] : List (Vec3 α) → Vec3 α
  | [] => Vec3.zero
  | p :: X => Vec3.add p (sum0 X)

/-- `np.mean(X, 0)`: column sums divided by the number of rows -/
def mean0 [Add α] [Div α] [NatCast α] [OfNat α 0] (X : List (Vec3 α)) : Vec3 α :=
  let s := sum0 X
  let n : α := (X.length : Nat)
  ⟨s.x / n, s.y / n, s.z / n⟩

/-- `Σₖ pₖ qₖᵀ` -/
def outerSum [Add α] [Mul α] [OfNat α 0] : List (Vec3 α) → List (Vec3 α) → Mat3 α
  | p :: P, q :: Q => Mat3.add (Mat3.outer p q) (outerSum P Q)
  | _, _ => Mat3.zero

/-- `np.dot(Pt, Q)` for a 3×n and an n×3 array: the 3×3 sum of outer products -/
def dotTP [Add α] [Mul α] [OfNat α 0] (Pt : PointsT α) (Q : List (Vec3 α)) : Mat3 α := outerSum Pt.cols Q

/-- `np.dot(M, Y)` for a 3×3 and a 3×n array: `M` applied to every column -/
def dotMT [Add α] [Mul α] (M : Mat3 α) (Y : PointsT α) : PointsT α := ⟨Y.cols.map M.mulVec⟩

/-- `np.dot(X, M)` for an n×3 and a 3×3 array: every row `p` becomes `pᵀM = (Mᵀp)ᵀ` -/
def dotPM [Add α] [Mul α] (X : List (Vec3 α)) (M : Mat3 α) : List (Vec3 α) := X.map M.T.mulVec

/-- `M / s` (every entry) -/
def mdiv [Div α] (M : Mat3 α) (s : α) : Mat3 α :=
  ⟨M.a / s, M.b / s, M.c / s, M.d / s, M.e / s, M.f / s, M.g / s, M.h / s, M.i / s⟩

/-- `X + v` (the row `v` broadcast over the rows of `X`) -/
def addRow [Add α] (X : List (Vec3 α)) (v : Vec3 α) : List (Vec3 α) := X.map (fun p => Vec3.add p v)

/-- `X - v` -/
def subRow [Sub α] (X : List (Vec3 α)) (v : Vec3 α) : List (Vec3 α) := X.map (fun p => Vec3.sub p v)

/-- `P + Q` for two n×3 arrays -/
def padd [Add α] : List (Vec3 α) → List (Vec3 α) → List (Vec3 α)
  | p :: P, q :: Q => Vec3.add p q :: padd P Q
  | _, _ => []

/-- `P - Q` for two n×3 arrays -/
def psub [Sub α] : List (Vec3 α) → List (Vec3 α) → List (Vec3 α)
  | p :: P, q :: Q => Vec3.sub p q :: psub P Q
  | _, _ => []

/-- `X ** 2` (every entry) -/
def psquare [Mul α] (X : List (Vec3 α)) : List (Vec3 α) := X.map (fun p => ⟨p.x * p.x, p.y * p.y, p.z * p.z⟩)

/-- `np.sum(X)` (all entries) -/
def sumAll [Add α] [OfNat α 0] : List (Vec3 α) → α
  | [] => 0
  | p :: X => (p.x + p.y + p.z) + sumAll X

/-- `np.abs(x)` -/
def sabs [Neg α] [OfNat α 0] [LT α] [DecidableLT α] (x : α) : α := if x < 0 then -x else x

/-- `np.abs(v)` -/
def vabs [Neg α] [OfNat α 0] [LT α] [DecidableLT α] (v : Vec3 α) : Vec3 α := ⟨sabs v.x, sabs v.y, sabs v.z⟩

/-- `v > s` (a Boolean array) -/
def vgt [LT α] [DecidableLT α] (v : Vec3 α) (s : α) : Vec3 Bool := ⟨decide (s < v.x), decide (s < v.y), decide (s < v.z)⟩

/-- `v < s` -/
def vlt [LT α] [DecidableLT α] (v : Vec3 α) (s : α) : Vec3 Bool := ⟨decide (v.x < s), decide (v.y < s), decide (v.z < s)⟩

/-- `any(b)` for a Boolean array of three -/
def any3 (b : Vec3 Bool) : Bool := b.x || b.y || b.z

/-- `all(b)` -/
def all3 (b : Vec3 Bool) : Bool := b.x && b.y && b.z

end
end Py.Np
