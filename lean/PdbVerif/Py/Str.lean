/-
  A small "Python runtime" for the string operations the pdb2sql sources use.
  Strings are `List Char` so that structural induction and `simp` work on them.
  No Mathlib here: the driver imports this file.
-/
namespace Py

abbrev Str := List Char

/-- Exception classes the models distinguish (the harness maps real exceptions to the same enum). -/
inductive Err
  | valueError | typeError | indexError | fileNotFound | unboundLocal | recursion
  | tooManyVars | zeroDiv | keyError | unmodelled (why : String)
  deriving DecidableEq, Repr, Inhabited

def Err.tag : Err → String
  | .valueError => "ValueError" | .typeError => "TypeError" | .indexError => "IndexError"
  | .fileNotFound => "FileNotFoundError" | .unboundLocal => "UnboundLocalError"
  | .recursion => "RecursionError" | .tooManyVars => "ValueError"
  | .zeroDiv => "ZeroDivisionError" | .keyError => "KeyError"
  | .unmodelled w => "UNMODELLED:" ++ w

/-- `str.isspace` restricted to ASCII (the generators never leave ASCII). -/
def isSpace (c : Char) : Bool :=
  c == ' ' || c == '\t' || c == '\n' || c == '\r' || c == '\x0b' || c == '\x0c' ||
  c == '\x1c' || c == '\x1d' || c == '\x1e' || c == '\x1f'

def lstrip (s : Str) : Str := s.dropWhile isSpace
def rstrip (s : Str) : Str := (s.reverse.dropWhile isSpace).reverse
def strip (s : Str) : Str := rstrip (lstrip s)

def len (s : Str) : Int := s.length

/-- Python's index normalisation for slices: negative counts from the end, then clamp to [0,n]. -/
def normIdx (n : Nat) (i : Int) : Nat :=
  if i < 0 then (i + n).toNat else min i.toNat n

/-- `s[a:b]` -/
def slice (s : Str) (a b : Int) : Str :=
  (s.take (normIdx s.length b)).drop (normIdx s.length a)

/-- `s[a:]` -/
def sliceFrom (s : Str) (a : Int) : Str := s.drop (normIdx s.length a)

/-- `s[i]` -/
def getItem (s : Str) (i : Int) : Except Err Char :=
  let j : Int := if i < 0 then i + s.length else i
  if j < 0 then .error .indexError
  else match s[j.toNat]? with
    | some c => .ok c
    | none => .error .indexError

/-- `s * n` -/
def rep (s : Str) (n : Int) : Str := (List.replicate n.toNat s).flatten

def spaces (n : Nat) : Str := List.replicate n ' '

/-- `'{:>w}'.format(s)` -/
def rjust (w : Nat) (s : Str) : Str := spaces (w - s.length) ++ s
/-- `'{:<w}'.format(s)` -/
def ljust (w : Nat) (s : Str) : Str := s ++ spaces (w - s.length)
/-- `'{:^w}'.format(s)`: the odd blank goes to the right. -/
def center (w : Nat) (s : Str) : Str :=
  let pad := w - s.length
  spaces (pad / 2) ++ s ++ spaces (pad - pad / 2)

def startsWith (s p : Str) : Bool := p.isPrefixOf s

/-- `s.split(c)` for a one-character separator. -/
def splitOn (c : Char) : Str → List Str
  | [] => [[]]
  | x :: xs =>
    if x == c then [] :: splitOn c xs
    else match splitOn c xs with
      | [] => [[x]]          -- unreachable: splitOn never returns []
      | h :: t => (x :: h) :: t

/-- `s.split()` (whitespace runs, no empty pieces). -/
def splitWsAux : Str → Str → List Str
  | [], cur => if cur.isEmpty then [] else [cur.reverse]
  | x :: xs, cur =>
    if isSpace x then
      (if cur.isEmpty then splitWsAux xs [] else cur.reverse :: splitWsAux xs [])
    else splitWsAux xs (x :: cur)

def splitWs (s : Str) : List Str := splitWsAux s []

def isDigit (c : Char) : Bool := '0' ≤ c && c ≤ '9'
def digitVal (c : Char) : Nat := c.toNat - '0'.toNat

/-- `c in "0123456789"` for a one-character or empty string `c` (substring test). -/
def inDigits (s : Str) : Bool :=
  match s with
  | [] => true
  | [c] => isDigit c
  | _ => false   -- longer strings: only contiguous runs match; callers pass ≤ 1 char

def lower (s : Str) : Str := s.map Char.toLower

def ofString (s : String) : Str := s.toList
def toString (s : Str) : String := String.ofList s

instance : Coe String Str := ⟨String.toList⟩

end Py
