/-
  One row of the ATOM table: the fourteen standard attributes, in the order of `pdb2sql_base.col`
  (the translator checks that order against the source and `Gen.col_order_ok` re-checks it in Lean).
-/
import PdbVerif.Py.Str

namespace Py

structure Atom where
  serial : Int
  name : Str
  altLoc : Str
  resName : Str
  chainID : Str
  resSeq : Int
  iCode : Str
  x : Rat
  y : Rat
  z : Rat
  occ : Rat
  temp : Rat
  element : Str
  model : Int
  deriving Repr, DecidableEq, Inhabited

/-- a cell value as SQLite stores it -/
inductive Val
  | int (i : Int) | real (r : Rat) | text (s : Str)
  deriving DecidableEq, Repr, Inhabited

/-- a row as `get('*')` returns it -/
abbrev Row := List Val

def Atom.toRow (a : Atom) : Row :=
  [.int a.serial, .text a.name, .text a.altLoc, .text a.resName, .text a.chainID, .int a.resSeq, .text a.iCode,
   .real a.x, .real a.y, .real a.z, .real a.occ, .real a.temp, .text a.element, .int a.model]

def Atom.ofRow : Row → Option Atom
  | [.int serial, .text name, .text altLoc, .text resName, .text chainID, .int resSeq, .text iCode,
     .real x, .real y, .real z, .real occ, .real temp, .text element, .int model] =>
    some { serial, name, altLoc, resName, chainID, resSeq, iCode, x, y, z, occ, temp, element, model }
  | _ => none

def Atom.fieldNames : List String :=
  ["serial", "name", "altLoc", "resName", "chainID", "resSeq", "iCode",
   "x", "y", "z", "occ", "temp", "element", "model"]

end Py
