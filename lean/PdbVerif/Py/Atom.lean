/-
  One row of the ATOM table: the fourteen standard attributes, in the order of `pdb2sql_base.col`
  (the translator checks that order against the source and `Gen.col_order_ok` re-checks it in Lean).
-/
import PdbVerif.Py.Str

namespace Py

structure Atom where
  serial : Int
  name : Str
  altLoc : Str
  resName : Str
  chainID : Str
  resSeq : Int
  iCode : Str
  x : Rat
  y : Rat
  z : Rat
  occ : Rat
  temp : Rat
  element : Str
  model : Int
  deriving Repr, DecidableEq, Inhabited

def Atom.fieldNames : List String :=
  ["serial", "name", "altLoc", "resName", "chainID", "resSeq", "iCode",
   "x", "y", "z", "occ", "temp", "element", "model"]

end Py
