/-
  IEEE binary64 rounding of an exact rational (round to nearest, ties to even), as an executable
  function on `Rat`.  Subnormals and overflow are not modelled (the generators stay far from both).
  Used by the driver to evaluate float formulas bit-exactly; theorems quantify over any rounding `fl`
  with the stated properties and never unfold this definition.
-/
import PdbVerif.Py.Num

namespace Py

def pow2 (e : Int) : Rat := if e ≥ 0 then ((2 ^ e.toNat : Nat) : Rat) else 1 / ((2 ^ (-e).toNat : Nat) : Rat)

def toDouble (q : Rat) : Rat :=
  if q = 0 then 0 else
  let a : Rat := if q < 0 then -q else q
  let e0 : Int := (Nat.log2 a.num.natAbs : Int) - (Nat.log2 a.den : Int)
  let e : Int := if a < pow2 e0 then e0 - 1 else if a ≥ pow2 (e0 + 1) then e0 + 1 else e0
  let m := roundHE (a / pow2 (e - 52))
  let r : Rat := (m : Rat) * pow2 (e - 52)
  if q < 0 then -r else r

end Py
