/-
  3×3 / 4×4 matrices and 3-vectors as plain structures over an arbitrary carrier with explicit
  operation classes (core Lean only), so that the same definitions run over `Rat` in the driver and
  are reasoned about over `ℝ` (or any field) in the proof files, where every identity unfolds to
  polynomial equalities for `ring` / `linear_combination`.
-/
namespace Py

@[ext] structure Vec3 (α : Type) where
  (x y z : α)
  deriving Repr, DecidableEq

@[ext] structure Mat3 (α : Type) where
  (a b c d e f g h i : α)
  deriving Repr, DecidableEq

@[ext] structure Vec4 (α : Type) where
  (w x y z : α)
  deriving Repr, DecidableEq

/-- 4×4 matrix, row-major `mRC`. -/
@[ext] structure Mat4 (α : Type) where
  (m00 m01 m02 m03 m10 m11 m12 m13 m20 m21 m22 m23 m30 m31 m32 m33 : α)
  deriving Repr, DecidableEq

section
variable {α : Type}

namespace Vec3
def add [Add α] (u v : Vec3 α) : Vec3 α := ⟨u.x + v.x, u.y + v.y, u.z + v.z⟩
def sub [Sub α] (u v : Vec3 α) : Vec3 α := ⟨u.x - v.x, u.y - v.y, u.z - v.z⟩
def neg [Neg α] (u : Vec3 α) : Vec3 α := ⟨-u.x, -u.y, -u.z⟩
def smul [Mul α] (k : α) (u : Vec3 α) : Vec3 α := ⟨k * u.x, k * u.y, k * u.z⟩
def dot [Add α] [Mul α] (u v : Vec3 α) : α := u.x * v.x + u.y * v.y + u.z * v.z
def cross [Sub α] [Mul α] (u v : Vec3 α) : Vec3 α :=
  ⟨u.y * v.z - u.z * v.y, u.z * v.x - u.x * v.z, u.x * v.y - u.y * v.x⟩
def normSq [Add α] [Mul α] (u : Vec3 α) : α := dot u u
def zero [OfNat α 0] : Vec3 α := ⟨0, 0, 0⟩
end Vec3

namespace Mat3
def mul [Add α] [Mul α] (M N : Mat3 α) : Mat3 α :=
  ⟨M.a*N.a + M.b*N.d + M.c*N.g, M.a*N.b + M.b*N.e + M.c*N.h, M.a*N.c + M.b*N.f + M.c*N.i,
   M.d*N.a + M.e*N.d + M.f*N.g, M.d*N.b + M.e*N.e + M.f*N.h, M.d*N.c + M.e*N.f + M.f*N.i,
   M.g*N.a + M.h*N.d + M.i*N.g, M.g*N.b + M.h*N.e + M.i*N.h, M.g*N.c + M.h*N.f + M.i*N.i⟩
def T (M : Mat3 α) : Mat3 α := ⟨M.a, M.d, M.g, M.b, M.e, M.h, M.c, M.f, M.i⟩
def one [OfNat α 0] [OfNat α 1] : Mat3 α := ⟨1,0,0, 0,1,0, 0,0,1⟩
def diag [OfNat α 0] (x y z : α) : Mat3 α := ⟨x,0,0, 0,y,0, 0,0,z⟩
def tr [Add α] (M : Mat3 α) : α := M.a + M.e + M.i
def det [Add α] [Sub α] [Mul α] (M : Mat3 α) : α :=
  M.a*(M.e*M.i - M.f*M.h) - M.b*(M.d*M.i - M.f*M.g) + M.c*(M.d*M.h - M.e*M.g)
def mulVec [Add α] [Mul α] (M : Mat3 α) (v : Vec3 α) : Vec3 α :=
  ⟨M.a*v.x + M.b*v.y + M.c*v.z, M.d*v.x + M.e*v.y + M.f*v.z, M.g*v.x + M.h*v.y + M.i*v.z⟩
def add [Add α] (M N : Mat3 α) : Mat3 α :=
  ⟨M.a+N.a, M.b+N.b, M.c+N.c, M.d+N.d, M.e+N.e, M.f+N.f, M.g+N.g, M.h+N.h, M.i+N.i⟩
def smul [Mul α] (k : α) (M : Mat3 α) : Mat3 α :=
  ⟨k*M.a, k*M.b, k*M.c, k*M.d, k*M.e, k*M.f, k*M.g, k*M.h, k*M.i⟩
/-- outer product `u vᵀ` -/
def outer [Mul α] (u v : Vec3 α) : Mat3 α :=
  ⟨u.x*v.x, u.x*v.y, u.x*v.z, u.y*v.x, u.y*v.y, u.y*v.z, u.z*v.x, u.z*v.y, u.z*v.z⟩
def zero [OfNat α 0] : Mat3 α := ⟨0,0,0, 0,0,0, 0,0,0⟩
/-- element access `M[i,j]`, out-of-range indices give entry (2,2) (never used with such). -/
def get (M : Mat3 α) (i j : Nat) : α :=
  match i, j with
  | 0, 0 => M.a | 0, 1 => M.b | 0, 2 => M.c
  | 1, 0 => M.d | 1, 1 => M.e | 1, 2 => M.f
  | 2, 0 => M.g | 2, 1 => M.h | _, _ => M.i
def col (M : Mat3 α) (j : Nat) : Vec3 α :=
  match j with
  | 0 => ⟨M.a, M.d, M.g⟩ | 1 => ⟨M.b, M.e, M.h⟩ | _ => ⟨M.c, M.f, M.i⟩
end Mat3

namespace Mat4
def mulVec [Add α] [Mul α] (F : Mat4 α) (q : Vec4 α) : Vec4 α :=
  ⟨F.m00*q.w + F.m01*q.x + F.m02*q.y + F.m03*q.z,
   F.m10*q.w + F.m11*q.x + F.m12*q.y + F.m13*q.z,
   F.m20*q.w + F.m21*q.x + F.m22*q.y + F.m23*q.z,
   F.m30*q.w + F.m31*q.x + F.m32*q.y + F.m33*q.z⟩
def T (F : Mat4 α) : Mat4 α :=
  ⟨F.m00, F.m10, F.m20, F.m30, F.m01, F.m11, F.m21, F.m31,
   F.m02, F.m12, F.m22, F.m32, F.m03, F.m13, F.m23, F.m33⟩
end Mat4

namespace Vec4
def dot [Add α] [Mul α] (p q : Vec4 α) : α := p.w*q.w + p.x*q.x + p.y*q.y + p.z*q.z
end Vec4

/-- quadratic form `qᵀ F q` -/
def Mat4.quad [Add α] [Mul α] (F : Mat4 α) (q : Vec4 α) : α := Vec4.dot q (F.mulVec q)

end
end Py
