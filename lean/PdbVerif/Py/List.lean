/- list helpers used by the generated code (no Mathlib) -/
import PdbVerif.Py.Str

namespace Py

/-- `s[i]` as a one-character `str` -/
def getItem1 (s : Str) (i : Int) : Except Err Str :=
  match getItem s i with
  | .ok c => .ok [c]
  | .error e => .error e

/-- `l[i]` for a list of strings -/
def listGet (l : List Str) (i : Int) : Except Err Str :=
  let j : Int := if i < 0 then i + l.length else i
  if j < 0 then .error .indexError
  else match l[j.toNat]? with
    | some c => .ok c
    | none => .error .indexError

def lenL (l : List Str) : Int := l.length

/-- `needle in hay` for strings (substring test) -/
def strIn (needle hay : Str) : Bool :=
  match hay with
  | [] => needle.isEmpty
  | _ :: t => needle.isPrefixOf hay || strIn needle t

/-- Python float division: `ZeroDivisionError` on a zero divisor -/
def fdiv (a b : Rat) : Except Err Rat :=
  if b = 0 then .error .zeroDiv else .ok (a / b)

end Py
