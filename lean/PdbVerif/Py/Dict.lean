/-
  Runtime of the translated contact code (`/verif/py/translate_ext_contacts.py` → `Gen/Contacts.lean`, namespace `GenC`):
  what the Python operations of that subset mean.  Hand-written, fixed text; core Lean only (the driver imports it).

    `Py.Dict`   a Python `dict` = association list in insertion order.  The definitions `contains`, `get?`, `setItem`,
                `setdefault` are COPIES of `Model.Dict.contains / get? / set / setDefault` (Model/Contacts.lean) — copied, not
                imported, so that generated code never depends on a hand model; `Proofs/GenContactsRt.lean` proves them equal.
    `Py.Rt`     lists, sets, tuples: `l[i]`, `enumerate`, `itertools.combinations(l, 2)`, `sorted`, `set(l)`, `s.add(x)`,
                comprehensions whose element expressions can raise.  A Python `set` is represented by the list of its distinct
                elements in order of first insertion; nothing translated ever depends on that order: iterating a set
                (`list(s)`, `for x in s`) goes through a function PARAMETER `setOrder` of the generated definition, and
                `sorted(s)` sorts.  `sorted` is a real sort (it keeps repetitions), so it is right for lists and sets alike.
    `Py.Tbl`    `self.get(columns, **kw)` on the ATOM table `t : List Atom` (rowID = position): the rows of the table in rowID
                order for which every keyword condition holds, projected on the requested columns — the selection semantics of
                C03 (`Spec.selected` of Spec/C03.lean, proved of `get` and of its SQL text in Props/C03, C03K); that `select` with
                the conditions the translator emits IS `Spec.selected` is proved in Proofs/GenContactsTbl.lean;
                `Model.chainRows` / `Model.rowsAt` are instances.
    `Py.Np`     the NumPy calls of the contact loop.  `np.array(rows)` of rows that mix numbers and strings is NumPy's string
                array; `.astype(float)` / `.astype(int)` parse the strings back — an exact round trip for doubles (shortest
                repr) and ints, so both are the identity on the values (assumption of C05, sampled by its correspondence run).
                `data[:, a:b]` needs a two-dimensional array: `np.array([])` is one-dimensional and the slice raises IndexError.
                The distance test `np.sqrt(np.sum((xyz2 - x0)**2, 1)) <= cutoff` is ONE primitive, `withinCutoff`, decided
                exactly (`0 ≤ c ∧ d² ≤ c²` on `Rat`); its binary64 evaluation is the subject of Props/C05K `contact_decision_eq`.
-/
import PdbVerif.Py.Atom

namespace Py

/-- a Python `dict` in insertion order -/
abbrev Dict (κ : Type) (ν : Type) := List (κ × ν)

namespace Dict
variable {κ ν : Type} [DecidableEq κ]

/-- `dict()` / `{}` -/
def empty : Dict κ ν := []

/-- `k in d` -/
def contains : Dict κ ν → κ → Bool
  | [], _ => false
  | (k', _) :: d, k => if k' = k then true else contains d k

/-- `d.get(k)` -/
def get? : Dict κ ν → κ → Option ν
  | [], _ => none
  | (k', v') :: d, k => if k' = k then some v' else get? d k

/-- `d[k]` (KeyError when absent) -/
def getItem (d : Dict κ ν) (k : κ) : Except Err ν :=
  match get? d k with
  | some v => .ok v
  | none => .error .keyError

/-- `d[k] = v` -/
def setItem : Dict κ ν → κ → ν → Dict κ ν
  | [], k, v => [(k, v)]
  | (k', v') :: d, k, v => if k' = k then (k', v) :: d else (k', v') :: setItem d k v

/-- the dictionary after `d.setdefault(k, v)` (the value the call returns is then `d[k]`) -/
def setdefault (d : Dict κ ν) (k : κ) (v : ν) : Dict κ ν :=
  if contains d k then d else d ++ [(k, v)]

/-- `d.keys()` -/
def keys (d : Dict κ ν) : List κ := d.map (·.1)
/-- `d.values()` -/
def values (d : Dict κ ν) : List ν := d.map (·.2)
/-- `d.items()` -/
def items (d : Dict κ ν) : List (κ × ν) := d
/-- `len(d)` -/
def len (d : Dict κ ν) : Nat := d.length

end Dict

namespace Rt

/-- Python's `<` on the value types that are sorted: `int`, `str` (code points, lexicographic), tuples (lexicographic) -/
class PyOrd (α : Type) where
  lt : α → α → Bool

instance : PyOrd Nat := ⟨fun a b => decide (a < b)⟩
instance : PyOrd Int := ⟨fun a b => decide (a < b)⟩
instance : PyOrd Str := ⟨fun a b => decide (a < b)⟩
instance {α β : Type} [DecidableEq α] [PyOrd α] [PyOrd β] : PyOrd (α × β) :=
  ⟨fun a b => PyOrd.lt a.1 b.1 || (decide (a.1 = b.1) && PyOrd.lt a.2 b.2)⟩

/-- insertion of `x` into an ascending list, after the elements that are not greater -/
def insertSorted {α : Type} [PyOrd α] (x : α) : List α → List α
  | [] => [x]
  | y :: ys => if PyOrd.lt x y then x :: y :: ys else y :: insertSorted x ys

/-- `sorted(l)` (repetitions are kept) -/
def sorted {α : Type} [PyOrd α] (l : List α) : List α :=
  l.foldl (fun acc x => insertSorted x acc) []

/-- `set(l)`: the distinct elements (representative: order of first occurrence) -/
def set {α : Type} [DecidableEq α] : List α → List α
  | [] => []
  | x :: xs => x :: (set xs).filter (fun y => decide (y ≠ x))

/-- `set()` -/
def emptySet {α : Type} : List α := []

/-- the set after `s.add(x)` -/
def setAdd {α : Type} [DecidableEq α] (s : List α) (x : α) : List α :=
  if x ∈ s then s else s ++ [x]

/-- `l[i]`, `i ≥ 0` (IndexError when out of range) -/
def getItem {α : Type} (l : List α) (i : Nat) : Except Err α :=
  match l[i]? with
  | some x => .ok x
  | none => .error .indexError

/-- `l[-k]`, `k > 0` -/
def getItemEnd {α : Type} (l : List α) (k : Nat) : Except Err α :=
  if k ≤ l.length then getItem l (l.length - k) else .error .indexError

/-- `enumerate(l)` -/
def enumerate {α : Type} (l : List α) : List (Nat × α) := l.zipIdx.map (fun p => (p.2, p.1))

/-- `itertools.combinations(l, 2)` -/
def combinations2 {α : Type} : List α → List (α × α)
  | [] => []
  | x :: xs => xs.map (fun y => (x, y)) ++ combinations2 xs

/-- `any([b, ...])` of an evaluated list -/
def any (l : List Bool) : Bool := l.any id
/-- `all([b, ...])` of an evaluated list -/
def all (l : List Bool) : Bool := l.all id

/-- `[e(x) for x in l if c(x)]` where evaluating `c(x)` / `e(x)` can raise: `f x = none` drops `x` -/
def filterMapM {α β : Type} (f : α → Except Err (Option β)) : List α → Except Err (List β)
  | [] => .ok []
  | x :: xs =>
    match f x with
    | .error e => .error e
    | .ok o =>
      match filterMapM f xs with
      | .error e => .error e
      | .ok r => .ok (match o with | some y => y :: r | none => r)

/-- `[e(x) for x in l]` where evaluating `e(x)` can raise -/
def mapM {α β : Type} (f : α → Except Err β) : List α → Except Err (List β)
  | [] => .ok []
  | x :: xs =>
    match f x with
    | .error e => .error e
    | .ok y =>
      match mapM f xs with
      | .error e => .error e
      | .ok r => .ok (y :: r)

/-- A function whose `return`s have two different types returns `Sum A B`.  Where the caller fixes, by a literal flag, which
    `return` is taken, the generated code projects with `asLeft` / `asRight`; taking the wrong side is not a Python error but
    a defect of the translation, so it is `unmodelled` — and the equivalence theorems show it never happens. -/
def asLeft {α β : Type} : Sum α β → Except Err α
  | .inl a => .ok a
  | .inr _ => .error (.unmodelled "return type: the other branch was expected")
def asRight {α β : Type} : Sum α β → Except Err β
  | .inr b => .ok b
  | .inl _ => .error (.unmodelled "return type: the other branch was expected")

end Rt

namespace Tbl

/-- a row of the ATOM table with its rowID (its position) -/
abbrev IRow := Atom × Nat

/-- `self.get(columns, **kw)`: rows in rowID order, those for which every keyword condition holds (`cond`), projected on the
    requested columns (`proj`).  The translator builds `cond` from the keywords (`key=value` → equality, `key=[values]` →
    membership; `rowID` is the position) and `proj` from the column string. -/
def select {β : Type} (t : List Atom) (cond : IRow → Bool) (proj : IRow → β) : List β :=
  (t.zipIdx.filter cond).map proj

end Tbl

namespace Np

/-- a row of an `n × 3` coordinate array -/
abbrev Point := Rat × Rat × Rat

/-- `np.array(rows)` of rows mixing numbers and strings: NumPy's string array (every cell printed); kept as the rows -/
def array {ρ : Type} (rows : List ρ) : List ρ := rows

/-- `data[:, a:b]` / `data[:, j]`: columns of a two-dimensional array; `np.array([])` has one dimension → IndexError -/
def cols {ρ σ : Type} (data : List ρ) (proj : ρ → σ) : Except Err (List σ) :=
  if data.isEmpty then .error .indexError else .ok (data.map proj)

/-- `.astype(float)` of string cells that were printed from doubles: the doubles (exact round trip) -/
def astypeFloat {ρ : Type} (a : List ρ) : List ρ := a
/-- `.astype(int)` of string cells that were printed from ints -/
def astypeInt {ρ : Type} (a : List ρ) : List ρ := a

/-- squared distance of two rows -/
def dist2 (p q : Point) : Rat :=
  (p.1 - q.1) * (p.1 - q.1) + (p.2.1 - q.2.1) * (p.2.1 - q.2.1) + (p.2.2 - q.2.2) * (p.2.2 - q.2.2)

/-- `np.sqrt(np.sum((xyz2 - x0)**2, 1)) <= cutoff`, row by row, on exact numbers -/
def withinCutoff (xyz2 : List Point) (x0 : Point) (cutoff : Rat) : List Bool :=
  xyz2.map (fun p => decide (0 ≤ cutoff) && decide (dist2 p x0 ≤ cutoff * cutoff))

/-- `np.where(mask)[0]`: the positions of the `True` entries, ascending -/
def where0 (mask : List Bool) : List Nat :=
  (mask.zipIdx.filter (fun p => p.1)).map (fun p => p.2)

end Np

end Py
