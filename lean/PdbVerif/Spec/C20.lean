/-
  C20 — file-backed databases: "complete or empty at any crash; file names are data".
  The property's own vocabulary; nothing here looks at the code.

  A *scenario* is the list of things one object does to its database file, at the granularity of database
  statements: open, CREATE TABLE, the rows of the bulk INSERT one by one, UPDATEs, ALTER TABLE, commit, close
  (keep | remove).  The property is about what a *fresh reader* (any stock SQLite connection) finds in the file
      – after `closeKeep`   : exactly the table the object held
      – after `closeRemove` : no file
      – after a process death at any earlier point : the table as of the last *commit point* — a moment with no
        uncommitted change — complete, never a part of a later one; before the first row is committed that is
        "no atoms" (no table, or the empty table).
  A commit point is: an explicit commit, a keep-close, or a DDL statement issued while nothing is pending (SQLite
  commits it at once); INSERT/UPDATE open the implicit transaction and are pending until the next commit point.
-/
namespace Spec.C20

/-- what a fresh reader finds under the file name -/
inductive Read (Row : Type)
  | noFile
  | noTable                    -- a database without ATOM table
  | table (rows : List Row)
  | notADatabase
  deriving DecidableEq, Repr

/-- "holds no atoms" (a missing file or table counts as no atoms) -/
def Read.noAtoms {Row : Type} : Read Row → Prop
  | .noFile | .noTable | .table [] => True
  | _ => False

inductive Op (Row : Type)
  | openDb                         -- connect to the named file; an existing file of that name is removed first
  | createTable                    -- CREATE TABLE ATOM (…)                        (DDL)
  | insertRow (r : Row)            -- one row of `executemany('INSERT …')`          (DML)
  | update (f : Row → Row)         -- `executemany('UPDATE …')` on the whole table  (DML)
  | addColumn (f : Row → Row)      -- ALTER TABLE … ADD COLUMN … DEFAULT …          (DDL)
  | commit
  | closeKeep
  | closeRemove

inductive Phase | fresh | live | closed
  deriving DecidableEq, Repr

section
variable {Row : Type}

def heldRead : Option (List Row) → Read Row
  | none => .noTable
  | some rows => .table rows

/-- the abstract course of a scenario -/
structure Sp (Row : Type) where
  phase : Phase
  held : Option (List Row)       -- the table the object holds (none: not created yet)
  dirty : Bool                   -- is there an uncommitted change?
  seen : Read Row                -- what a fresh reader finds: the table as of the last commit point

def Sp.step (s : Sp Row) : Op Row → Sp Row
  | .openDb => match s.phase with
    | .fresh => ⟨.live, none, false, .noTable⟩
    | _ => s
  | .createTable => match s.phase, s.held with
    | .live, none => if s.dirty then { s with held := some [] } else { s with held := some [], seen := .table [] }
    | _, _ => s
  | .insertRow r => match s.phase, s.held with
    | .live, some rows => { s with held := some (rows ++ [r]), dirty := true }
    | _, _ => s
  | .update f => match s.phase, s.held with
    | .live, some rows => { s with held := some (rows.map f), dirty := true }
    | _, _ => s
  | .addColumn f => match s.phase, s.held with
    | .live, some rows =>
      if s.dirty then { s with held := some (rows.map f) } else { s with held := some (rows.map f), seen := .table (rows.map f) }
    | _, _ => s
  | .commit => match s.phase with
    | .live => { s with dirty := false, seen := heldRead s.held }
    | _ => s
  | .closeKeep => match s.phase with
    | .live => { s with phase := .closed, dirty := false, seen := heldRead s.held }
    | _ => s
  | .closeRemove => match s.phase with
    | .live => { s with phase := .closed, dirty := false, seen := .noFile }
    | .closed => { s with seen := .noFile }      -- `_close(rmdb=True)` on a closed object still removes the file
    | .fresh => s

/-- `r₀` = what was under that name before the object existed -/
def spec (r₀ : Read Row) (ops : List (Op Row)) : Sp Row := ops.foldl Sp.step ⟨.fresh, none, false, r₀⟩

/-- the table the object holds after `ops` -/
def tableHeld (r₀ : Read Row) (ops : List (Op Row)) : Option (List Row) := (spec r₀ ops).held

/-- the table as of the last commit point of `ops` (as a reader's finding) -/
def lastCommitted (r₀ : Read Row) (ops : List (Op Row)) : Read Row := (spec r₀ ops).seen

/-- the object is alive after `ops`: opened and not yet closed -/
def Live (r₀ : Read Row) (ops : List (Op Row)) : Prop := (spec r₀ ops).phase = .live

/-- `T` is a *complete* table of the scenario: the whole table the object held at some moment `j` at which it had no
    uncommitted change (never a part of a table, never a table with half of an update) -/
def CompleteTable (r₀ : Read Row) (ops : List (Op Row)) (T : List Row) : Prop :=
  ∃ j, j ≤ ops.length ∧ tableHeld r₀ (ops.take j) = some T ∧ (spec r₀ (ops.take j)).dirty = false

end
end Spec.C20
