/-
  C05 — contact atoms: what the property says, in its own vocabulary.  Nothing here looks at the code.

  A structure is a list of atoms; an atom's identity is its position in the list (`atoms t = t.zipIdx`).
  "distance ≤ cutoff" is stated without square root: distance ≥ 0, so it means `0 ≤ cutoff ∧ distance² ≤ cutoff²`.
  The names that count as backbone are a parameter (`Params.backbone`).
-/
import PdbVerif.Py.Atom

namespace Spec.Contact
open Py

/-! ### "sorted, distinct" -/

def insertSorted {α : Type} [DecidableEq α] (lt : α → α → Bool) (x : α) : List α → List α
  | [] => [x]
  | y :: ys => if lt x y then x :: y :: ys else if x = y then y :: ys else y :: insertSorted lt x ys

/-- the distinct elements of `l` in ascending order -/
def sortDistinct {α : Type} [DecidableEq α] (lt : α → α → Bool) (l : List α) : List α :=
  l.foldl (fun acc x => insertSorted lt x acc) []

def natLt (a b : Nat) : Bool := decide (a < b)
/-- chain identifiers are ordered as strings -/
def strLt (a b : Str) : Bool := decide (a < b)

/-! ### filters, distance -/

structure Filters where
  /-- backbone-only -/
  bb : Bool
  /-- hydrogen exclusion -/
  noH : Bool
  deriving Repr

structure Params where
  /-- the atom names that count as backbone -/
  backbone : List Str
  filters : Filters
  cutoff : Rat

def sqDist (a b : Atom) : Rat :=
  (a.x - b.x) * (a.x - b.x) + (a.y - b.y) * (a.y - b.y) + (a.z - b.z) * (a.z - b.z)

/-- distance(a, b) ≤ cutoff -/
def near (P : Params) (a b : Atom) : Bool :=
  decide (0 ≤ P.cutoff) && decide (sqDist a b ≤ P.cutoff * P.cutoff)

/-- a hydrogen: the name starts with `H` -/
def isHydrogen (a : Atom) : Bool := a.name.head? == some 'H'

/-- the atom passes the active filters -/
def passes (P : Params) (a : Atom) : Bool :=
  (!P.filters.bb || decide (a.name ∈ P.backbone)) && !(P.filters.noH && isHydrogen a)

/-- an atom with its position -/
abbrev Pos := Atom × Nat

def atoms (t : List Atom) : List Pos := t.zipIdx

/-! ### two chains -/

/-- the atoms of chain `X`, in table order -/
def chainAtoms (t : List Atom) (X : Str) : List Pos :=
  (atoms t).filter (fun p => decide (p.1.chainID = X))

/-- both atoms pass the filters and they lie within the cutoff of each other -/
def touches (P : Params) (p q : Pos) : Bool :=
  passes P p.1 && passes P q.1 && near P p.1 q.1

/-- the partners of atom `p` in chain `Y`, in table order -/
def partners (P : Params) (t : List Atom) (Y : Str) (p : Pos) : List Nat :=
  ((chainAtoms t Y).filter (touches P p)).map (·.2)

/-- contact atoms of chain `X` with respect to chain `Y` (ascending positions): the atoms of `X` that pass the filters and
    lie within the cutoff of at least one filter-passing atom of `Y` -/
def contactAtoms (P : Params) (t : List Atom) (X Y : Str) : List Nat :=
  let ys := chainAtoms t Y
  ((chainAtoms t X).filter (fun p => ys.any (touches P p))).map (·.2)

/-- the pair map of (first chain `X`, second chain `Y`): for exactly the contact atoms of `X`, their partners in `Y` -/
def pairMap (P : Params) (t : List Atom) (X Y : Str) : List (Nat × List Nat) :=
  let ys := chainAtoms t Y
  ((chainAtoms t X).filter (fun p => ys.any (touches P p))).map (fun p => (p.2, partners P t Y p))

/-- what is reported per chain for the chain pair `(A, B)` -/
def twoChains (P : Params) (t : List Atom) (A B : Str) : List (Str × List Nat) :=
  [(A, contactAtoms P t A B), (B, contactAtoms P t B A)]

/-- transpose of a pair map: `j ↦ [i | j ∈ m[i]]` -/
def transpose (m : List (Nat × List Nat)) : List (Nat × List Nat) :=
  (sortDistinct natLt (m.flatMap (·.2))).map (fun j => (j, (m.filter (fun e => e.2.contains j)).map (·.1)))

/-! ### all chains -/

/-- the chains of the structure, in order -/
def chainIDs (t : List Atom) : List Str := sortDistinct strLt (t.map (·.chainID))

/-- a chain's contact atoms = union over all other chains -/
def contactAtomsAll (P : Params) (t : List Atom) (X : Str) : List Nat :=
  sortDistinct natLt (((chainIDs t).filter (fun Y => decide (Y ≠ X))).flatMap (fun Y => contactAtoms P t X Y))

def allChains (P : Params) (t : List Atom) : List (Str × List Nat) :=
  (chainIDs t).map (fun X => (X, contactAtomsAll P t X))

/-- a contacting pair of atoms of two different chains, `p`'s chain coming first -/
def contactFirst (P : Params) (p q : Pos) : Bool :=
  strLt p.1.chainID q.1.chainID && touches P p q

/-- `m` is an all-chains pair map of `t`: it contains every contacting pair of atoms from two different chains exactly
    once, listed under the atom whose chain comes first (and nothing else) -/
structure IsAllChainsPairMap (P : Params) (t : List Atom) (m : List (Nat × List Nat)) : Prop where
  /-- an atom is listed at most once as a key -/
  keys_once : (m.map (·.1)).Nodup
  /-- a partner is listed at most once under a key -/
  partners_once : ∀ e ∈ m, e.2.Nodup
  /-- no key without partners -/
  nonempty : ∀ e ∈ m, e.2 ≠ []
  /-- `j` is listed under `i` iff `(i, j)` is a contacting pair of two different chains and `i`'s chain comes first -/
  exact : ∀ i j : Nat, (∃ js, (i, js) ∈ m ∧ j ∈ js) ↔
    ∃ a b, t[i]? = some a ∧ t[j]? = some b ∧ contactFirst P (a, i) (b, j) = true

/-- one all-chains pair map (keys ascending, partners in table order), for evaluation -/
def pairMapAll (P : Params) (t : List Atom) : List (Nat × List Nat) :=
  (atoms t).filterMap (fun p =>
    let js := ((atoms t).filter (contactFirst P p)).map (·.2)
    if js.isEmpty then none else some (p.2, js))

end Spec.Contact
