/-
  C13 — `superpose()`: what the property says, in its own vocabulary.  Nothing here looks at the code.

  "Superposing a mobile structure onto a target moves all atoms of the mobile structure by one and the same rigid
   motion, chosen so that the RMSD between the selected atoms the two structures share (matched by chain, residue
   number, residue name and atom name) is minimal; a mobile structure that is a rigidly displaced copy of the target
   lands back on the target.  Only the mobile structure's coordinates change: its other attributes, its atom count
   and order, and the target are untouched, and no file is written unless export is requested."

  A structure is a list of atoms (order = atom order).  A rigid motion is `p ↦ R·p + t` with `R` a proper rotation
  (`Spec.IsRotation` of Spec/C06).  Minimal RMSD over a fixed set of pairs = minimal sum of squared deviations.
-/
import PdbVerif.Py.Atom
import PdbVerif.Py.Mat
import PdbVerif.Spec.C06

namespace Spec.C13
open Py

section motion
variable {α : Type} [Add α] [Sub α] [Mul α] [OfNat α 0] [OfNat α 1]

/-- `p ↦ R·p + t` -/
structure Motion (α : Type) where
  R : Mat3 α
  t : Vec3 α

def Motion.apply (m : Motion α) (p : Vec3 α) : Vec3 α := Vec3.add (m.R.mulVec p) m.t

/-- a rigid motion: the linear part is a proper rotation -/
def Motion.IsRigid (m : Motion α) : Prop := Spec.IsRotation m.R

/-- `Σ ‖p − q‖²` over paired points (RMSD = √(this / n)) -/
def sqDev : List (Vec3 α × Vec3 α) → α
  | [] => 0
  | (p, q) :: rest => Vec3.normSq (Vec3.sub p q) + sqDev rest

/-- the pairs after the first components were moved by `m` -/
def moved (m : Motion α) (pairs : List (Vec3 α × Vec3 α)) : List (Vec3 α × Vec3 α) :=
  pairs.map (fun p => (m.apply p.1, p.2))

/-- `m` is a rigid motion and no rigid motion brings the first components closer (in RMSD) to the second ones -/
def OptimalOn [LE α] (m : Motion α) (pairs : List (Vec3 α × Vec3 α)) : Prop :=
  m.IsRigid ∧ ∀ m' : Motion α, m'.IsRigid → sqDev (moved m pairs) ≤ sqDev (moved m' pairs)

end motion

/-! ### structures -/

def pos (a : Atom) : Vec3 Rat := ⟨a.x, a.y, a.z⟩

def moveTo (a : Atom) (v : Vec3 Rat) : Atom := { a with x := v.x, y := v.y, z := v.z }

/-- "only the coordinates change": `after` is `before` with every atom moved by `m` — same atoms, same order, same count,
    every other attribute as before -/
def MovedBy (m : Motion Rat) (before after : List Atom) : Prop :=
  after = before.map (fun a => moveTo a (m.apply (pos a)))

/-- `b` differs from `a` at most in its coordinates -/
def SameButPosition (a b : Atom) : Prop := moveTo b (pos a) = a

instance (a b : Atom) : Decidable (SameButPosition a b) := by unfold SameButPosition; infer_instance

/-- what identifies an atom: chain, residue number, residue name, atom name -/
def ident (a : Atom) : Str × Int × Str × Str := (a.chainID, a.resSeq, a.resName, a.name)

/-- the selected atoms the two structures share, matched by identity: (mobile atom, target atom) -/
def shared (sel : Atom → Bool) (mob tar : List Atom) : List (Atom × Atom) :=
  (mob.filter sel).flatMap (fun a => ((tar.filter sel).filter (fun b => decide (ident b = ident a))).map (fun b => (a, b)))

def sharedPos (sel : Atom → Bool) (mob tar : List Atom) : List (Vec3 Rat × Vec3 Rat) :=
  (shared sel mob tar).map (fun p => (pos p.1, pos p.2))

/-- identities are unique among the selected atoms of a structure -/
def UniqueIdent (sel : Atom → Bool) (s : List Atom) : Prop := ((s.filter sel).map ident).Nodup

instance (sel : Atom → Bool) (s : List Atom) : Decidable (UniqueIdent sel s) := by unfold UniqueIdent; infer_instance

/-- `mob` is `tar` displaced by the motion `d`, atom by atom -/
def DisplacedCopy (d : Motion Rat) (tar mob : List Atom) : Prop := MovedBy d tar mob

end Spec.C13
