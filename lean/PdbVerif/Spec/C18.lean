/-
  C18 — what the property says, in its own vocabulary.  Nothing here looks at the code.

  "After aligning a structure to a Cartesian axis, the direction of largest variance of the selected atoms
   is parallel to that axis, and after aligning an interface to a plane the direction of least variance of
   the contact atoms is normal to that plane … The whole structure is moved by a single rigid rotation
   about its centroid, nothing but coordinates changes, and no file is written unless export is requested."

  The variance of a point set along a direction `w` is `wᵀ S w / ((n−1)·‖w‖²)` with the scatter matrix
  `S = Σ (p − m)(p − m)ᵀ`, `m` the centroid.
-/
import PdbVerif.Spec.C10

namespace Spec
open Py

section
variable {α : Type} [Add α] [Sub α] [Mul α] [OfNat α 0] [OfNat α 1]

/-- `Σ (p − m)(p − m)ᵀ` -/
def scatterAbout (m : Vec3 α) : List (Vec3 α) → Mat3 α
  | [] => Mat3.zero
  | p :: X => Mat3.add (Mat3.outer (Vec3.sub p m) (Vec3.sub p m)) (scatterAbout m X)

/-- scatter matrix about the centroid -/
def scatter [Div α] [NatCast α] (X : List (Vec3 α)) : Mat3 α := scatterAbout (centroid X) X

/-- `wᵀ S w` -/
def quadForm (S : Mat3 α) (w : Vec3 α) : α := Vec3.dot w (S.mulVec w)

/-- the direction `e` carries the largest variance of `X`: no direction has a larger Rayleigh quotient -/
def LargestVarianceAlong [LE α] [Div α] [NatCast α] (X : List (Vec3 α)) (e : Vec3 α) : Prop :=
  ∀ w : Vec3 α, quadForm (scatter X) w * Vec3.normSq e ≤ quadForm (scatter X) e * Vec3.normSq w

/-- the direction `e` carries the least variance of `X` -/
def LeastVarianceAlong [LE α] [Div α] [NatCast α] (X : List (Vec3 α)) (e : Vec3 α) : Prop :=
  ∀ w : Vec3 α, quadForm (scatter X) e * Vec3.normSq w ≤ quadForm (scatter X) w * Vec3.normSq e

/-- unit vector of a Cartesian axis -/
def axisVec (axis : String) : Option (Vec3 α) :=
  if axis = "x" then some e1 else if axis = "y" then some e2 else if axis = "z" then some e3 else none

/-- the normal of a Cartesian plane -/
def planeNormal (plane : String) : Option (Vec3 α) :=
  if plane = "xy" then some e3 else if plane = "xz" then some e2 else if plane = "yz" then some e1 else none

/-- one rigid rotation about the centroid: every atom goes to `m + R(p − m)`, `R` proper, `m` the centroid
    of all atoms -/
def RigidAboutCentroid [Div α] [NatCast α] (X X' : List (Vec3 α)) : Prop :=
  ∃ R : Mat3 α, IsRotation R ∧ X' = X.map (fun p => Vec3.add (centroid X) (R.mulVec (Vec3.sub p (centroid X))))

end

/-!
### Certificate form evaluated by the Spec driver on the table the implementation produced

* principal direction: with `S` the scatter matrix of the selected atoms after the call and `e` the axis,
  `S e − (eᵀSe) e` vanishes and `(eᵀSe)·I − S` (largest) resp. `S − (eᵀSe)·I` (least) is positive
  semidefinite — together: `e` maximises (minimises) the Rayleigh quotient;
* one rigid rotation about the centroid: the centroid is unchanged, the Gram matrix of the centred
  coordinates is unchanged (⇒ one orthogonal map), signed volumes are unchanged (⇒ proper);
* nothing but coordinates changes: the rows are identical up to x, y, z.
-/

structure AlignCertificate where
  /-- max |(S e − (eᵀSe) e)ᵢ| / tr S -/
  offAxis : Rat
  /-- least principal minor of ±((eᵀSe)·I − S) / tr S, / (tr S)², / (tr S)³ -/
  minMinor : Rat
  /-- max coordinate difference of the centroids of all atoms before / after -/
  centroidShift : Rat
  /-- max |Gᵢⱼ − G'ᵢⱼ| over all pairs, `G` the Gram matrix of the centred coordinates -/
  gramDefect : Rat
  /-- max |vol − vol'| over consecutive triples of centred coordinates -/
  orientDefect : Rat
  /-- rows whose non-coordinate attributes differ, or a different number of rows -/
  attrsChanged : Nat

def centre (X : List (Vec3 Rat)) : List (Vec3 Rat) := X.map (fun p => Vec3.sub p (centroid X))

def gramDefectOf (X X' : List (Vec3 Rat)) : Rat :=
  let C := centre X; let C' := centre X'
  let rows := List.zip C C'
  rmax (rows.flatMap (fun pq => rows.map (fun rs => rabs (Vec3.dot pq.1 rs.1 - Vec3.dot pq.2 rs.2))))

def triples : List (Vec3 Rat) → List (Vec3 Rat × Vec3 Rat × Vec3 Rat)
  | p :: q :: r :: t => (p, q, r) :: triples (q :: r :: t)
  | _ => []

def orientDefectOf (X X' : List (Vec3 Rat)) : Rat :=
  let T := triples (centre X); let T' := triples (centre X')
  rmax ((List.zip T T').map (fun tt =>
    rabs (Vec3.dot tt.1.1 (Vec3.cross tt.1.2.1 tt.1.2.2) - Vec3.dot tt.2.1 (Vec3.cross tt.2.2.1 tt.2.2.2))))

def sameButXYZ (a a' : Atom) : Bool := decide (a' = { a with x := a'.x, y := a'.y, z := a'.z })

def alignCertificate (leastVariance : Bool) (e : Vec3 Rat) (sel : List Bool) (db db' : List Atom) : AlignCertificate :=
  let X := db.map xyzOf
  let X' := db'.map xyzOf
  let selX' := ((List.zip sel X').filter (fun p => p.1)).map (fun p => p.2)
  let S := scatter selX'
  let t := S.a + S.e + S.i
  let lam := quadForm S e
  let Se := S.mulVec e
  let N : Mat3 Rat := if leastVariance
    then ⟨(S.a - lam) / t, S.b / t, S.c / t, S.d / t, (S.e - lam) / t, S.f / t, S.g / t, S.h / t, (S.i - lam) / t⟩
    else ⟨(lam - S.a) / t, -S.b / t, -S.c / t, -S.d / t, (lam - S.e) / t, -S.f / t, -S.g / t, -S.h / t, (lam - S.i) / t⟩
  { offAxis := rmax [rabs (Se.x - lam * e.x), rabs (Se.y - lam * e.y), rabs (Se.z - lam * e.z)] / t
    minMinor := rmin (principalMinors N)
    centroidShift :=
      let m := centroid X; let m' := centroid X'
      rmax [rabs (m.x - m'.x), rabs (m.y - m'.y), rabs (m.z - m'.z)]
    gramDefect := gramDefectOf X X'
    orientDefect := orientDefectOf X X'
    attrsChanged :=
      (if db.length = db'.length then 0 else 1) + ((List.zip db db').filter (fun p => !sameButXYZ p.1 p.2)).length }

end Spec
