/-
  C16 — "computations depend on their arguments only: no stray files, safe concurrently".
  The property's own vocabulary; nothing here looks at the code.

  * a file system is a finite map  path → content (a list of lines);  paths `P` and lines `L` are abstract
  * a computation is an *effect program*: a tree of file-system actions whose continuation is a function of what
    the action observed (so "the value depends on … only" is a statement about which observations a tree makes)
  * every path has one role: input | (requested) output | (zone-file) cache | (the run's own) temp | other
  * `Within role t`       : every action of `t`, on every branch, stays inside the footprint the property allows
  * `Sys`, `Sys.step k`   : interleaving semantics — one action of task `k` per step; a schedule is any `List Nat`
  * `Noninterfering`      : under every schedule every finished task has the outcome of its solo run
-/
namespace Spec.C16

/-- the exceptions that matter for the file protocol -/
inductive Err | fileNotFound | valueError | tempCollision | other
  deriving DecidableEq, Repr

def Err.tag : Err → String
  | .fileNotFound => "ERR:FileNotFoundError" | .valueError => "ERR:ValueError"
  | .tempCollision => "ERR:Other:FileExistsError" | .other => "ERR:Other"

/-- file system: path ↦ content, `none` = no such file -/
abbrev FS (P L : Type) := P → Option (List L)

section
variable {P L R : Type}

def FS.set [DecidableEq P] (fs : FS P L) (p : P) (v : Option (List L)) : FS P L :=
  fun q => if q = p then v else fs q

@[simp] theorem FS.set_same [DecidableEq P] (fs : FS P L) (p : P) (v : Option (List L)) : fs.set p v p = v := by
  simp [FS.set]

theorem FS.set_other [DecidableEq P] (fs : FS P L) (p q : P) (v : Option (List L)) (h : q ≠ p) : fs.set p v q = fs q := by
  simp [FS.set, h]

/-- role of a path in one computation -/
inductive Role | input | output | cache | temp | other
  deriving DecidableEq, Repr

/-- what a computation may look at: its inputs and the zone-file cache it was given -/
def Role.readable : Role → Bool
  | .input | .cache => true
  | _ => false

/-- one file-system / database-connection action (the alphabet of traces) -/
inductive Act (P : Type)
  | pathExists (p : P)        -- os.path.exists
  | isFile (p : P)            -- os.path.isfile
  | readAll (p : P)           -- open(p,'r') … readlines
  | createTemp (p : P)        -- tempfile.mkstemp: exclusive creation of a new, empty file
  | append (p : P)            -- write to a file this computation has open
  | openTrunc (p : P)         -- open(p,'w'): create or truncate
  | replace (src dst : P)     -- os.replace: atomic
  | remove (p : P)            -- os.remove
  | dbOpen (p : P)            -- sqlite3.connect(<file>)
  | dbMem                     -- sqlite3.connect(':memory:'): no file
  | shell                     -- os.system / shell=True
  deriving DecidableEq, Repr

/-- is one action inside the footprint the property allows?
    reads ⊆ inputs ∪ cache; writes ⊆ requested outputs ∪ cache (published by `replace` from the run's own
    temp file) ∪ own temp; no shell; no database file. -/
def Act.ok (role : P → Role) : Act P → Bool
  | .pathExists p | .isFile p | .readAll p => (role p).readable
  | .createTemp p => role p == .temp
  | .append p => role p == .temp || role p == .output
  | .openTrunc p => role p == .output
  | .replace s d => role s == .temp && role d == .cache
  | .remove p => role p == .temp
  | .dbOpen _ => false
  | .dbMem => true
  | .shell => false

/-- a trace is inside the footprint -/
def traceOk (role : P → Role) (tr : List (Act P)) : Bool := tr.all (Act.ok role)

/-- the offending actions of a trace (for reports) -/
def traceBad (role : P → Role) (tr : List (Act P)) : List (Act P) := tr.filter (fun a => !Act.ok role a)

/-- effect programs: the pure work between two actions is whatever the continuation does -/
inductive Prog (P L R : Type) where
  | done (r : R)
  | fail (e : Err)
  | pathExists (p : P) (k : Bool → Prog P L R)
  | isFile (p : P) (k : Bool → Prog P L R)
  | readAll (p : P) (k : List L → Prog P L R)        -- raises FileNotFoundError when `p` is absent
  | createTemp (p : P) (k : Prog P L R)
  | append (p : P) (chunk : List L) (k : Prog P L R)
  | openTrunc (p : P) (k : Prog P L R)
  | replace (src dst : P) (k : Prog P L R)
  | remove (p : P) (k : Prog P L R)
  | dbOpen (p : P) (k : Prog P L R)
  | dbMem (k : Prog P L R)
  | shell (cmd : FS P L → FS P L) (k : Prog P L R)

abbrev Outcome (R : Type) := Except Err R

instance decEqOutcome [DecidableEq R] : DecidableEq (Except Err R)
  | .ok a, .ok b => if h : a = b then isTrue (by rw [h]) else isFalse (by intro e; cases e; exact h rfl)
  | .error a, .error b => if h : a = b then isTrue (by rw [h]) else isFalse (by intro e; cases e; exact h rfl)
  | .ok _, .error _ => isFalse (by intro e; cases e)
  | .error _, .ok _ => isFalse (by intro e; cases e)

/-- a finished program's outcome -/
def Prog.outcome : Prog P L R → Option (Outcome R)
  | .done r => some (.ok r)
  | .fail e => some (.error e)
  | _ => none

/-- the action a program performs next -/
def Prog.head : Prog P L R → Option (Act P)
  | .done _ | .fail _ => none
  | .pathExists p _ => some (.pathExists p)
  | .isFile p _ => some (.isFile p)
  | .readAll p _ => some (.readAll p)
  | .createTemp p _ => some (.createTemp p)
  | .append p _ _ => some (.append p)
  | .openTrunc p _ => some (.openTrunc p)
  | .replace s d _ => some (.replace s d)
  | .remove p _ => some (.remove p)
  | .dbOpen p _ => some (.dbOpen p)
  | .dbMem _ => some .dbMem
  | .shell _ _ => some .shell

variable [DecidableEq P]

/-- one action against the file system.  Trusted OS facts are exactly the clauses below: `open('w')` truncates,
    a write through an open descriptor appends to that file (and is lost when the name was unlinked),
    `os.replace` moves the complete content in one step, `mkstemp` never opens an existing file. -/
def Prog.step (fs : FS P L) : Prog P L R → FS P L × Prog P L R
  | .done r => (fs, .done r)
  | .fail e => (fs, .fail e)
  | .pathExists p k => (fs, k (fs p).isSome)
  | .isFile p k => (fs, k (fs p).isSome)
  | .readAll p k => match fs p with
    | some c => (fs, k c)
    | none => (fs, .fail .fileNotFound)
  | .createTemp p k => match fs p with
    | none => (fs.set p (some []), k)
    | some _ => (fs, .fail .tempCollision)
  | .append p ch k => match fs p with
    | some c => (fs.set p (some (c ++ ch)), k)
    | none => (fs, k)
  | .openTrunc p k => (fs.set p (some []), k)
  | .replace s d k => match fs s with
    | some c => ((fs.set s none).set d (some c), k)
    | none => (fs, .fail .fileNotFound)
  | .remove p k => match fs p with
    | some _ => (fs.set p none, k)
    | none => (fs, .fail .fileNotFound)
  | .dbOpen p k => match fs p with
    | some _ => (fs, k)
    | none => (fs.set p (some []), k)
  | .dbMem k => (fs, k)
  | .shell f k => (f fs, k)

/-- a solo run to completion: final file system and outcome -/
def Prog.exec : Prog P L R → FS P L → FS P L × Outcome R
  | .done r, fs => (fs, .ok r)
  | .fail e, fs => (fs, .error e)
  | .pathExists p k, fs => (k (fs p).isSome).exec fs
  | .isFile p k, fs => (k (fs p).isSome).exec fs
  | .readAll p k, fs => match fs p with
    | some c => (k c).exec fs
    | none => (fs, .error .fileNotFound)
  | .createTemp p k, fs => match fs p with
    | none => k.exec (fs.set p (some []))
    | some _ => (fs, .error .tempCollision)
  | .append p ch k, fs => match fs p with
    | some c => k.exec (fs.set p (some (c ++ ch)))
    | none => k.exec fs
  | .openTrunc p k, fs => k.exec (fs.set p (some []))
  | .replace s d k, fs => match fs s with
    | some c => k.exec ((fs.set s none).set d (some c))
    | none => (fs, .error .fileNotFound)
  | .remove p k, fs => match fs p with
    | some _ => k.exec (fs.set p none)
    | none => (fs, .error .fileNotFound)
  | .dbOpen p k, fs => match fs p with
    | some _ => k.exec fs
    | none => k.exec (fs.set p (some []))
  | .dbMem k, fs => k.exec fs
  | .shell f k, fs => k.exec (f fs)

/-- the trace of a solo run -/
def Prog.trace : Prog P L R → FS P L → List (Act P)
  | .done _, _ => []
  | .fail _, _ => []
  | .pathExists p k, fs => .pathExists p :: (k (fs p).isSome).trace fs
  | .isFile p k, fs => .isFile p :: (k (fs p).isSome).trace fs
  | .readAll p k, fs => .readAll p :: match fs p with
    | some c => (k c).trace fs
    | none => []
  | .createTemp p k, fs => .createTemp p :: match fs p with
    | none => k.trace (fs.set p (some []))
    | some _ => []
  | .append p ch k, fs => .append p :: match fs p with
    | some c => k.trace (fs.set p (some (c ++ ch)))
    | none => k.trace fs
  | .openTrunc p k, fs => .openTrunc p :: k.trace (fs.set p (some []))
  | .replace s d k, fs => .replace s d :: match fs s with
    | some c => k.trace ((fs.set s none).set d (some c))
    | none => []
  | .remove p k, fs => .remove p :: match fs p with
    | some _ => k.trace (fs.set p none)
    | none => []
  | .dbOpen p k, fs => .dbOpen p :: match fs p with
    | some _ => k.trace fs
    | none => k.trace (fs.set p (some []))
  | .dbMem k, fs => .dbMem :: k.trace fs
  | .shell f k, fs => .shell :: k.trace (f fs)

/-- **footprint**: every action on every branch — whatever the file system holds, whatever was read — is allowed -/
def Within (role : P → Role) : Prog P L R → Prop
  | .done _ | .fail _ => True
  | .pathExists p k => (role p).readable = true ∧ ∀ b, Within role (k b)
  | .isFile p k => (role p).readable = true ∧ ∀ b, Within role (k b)
  | .readAll p k => (role p).readable = true ∧ ∀ c, Within role (k c)
  | .createTemp p k => role p = .temp ∧ Within role k
  | .append p _ k => (role p = .temp ∨ role p = .output) ∧ Within role k
  | .openTrunc p k => role p = .output ∧ Within role k
  | .replace s d k => (role s = .temp ∧ role d = .cache) ∧ Within role k
  | .remove p k => role p = .temp ∧ Within role k
  | .dbOpen _ _ => False
  | .dbMem k => Within role k
  | .shell _ _ => False

/-- two file systems look the same to a computation: same inputs, same cache (and the same — normally absent —
    files under the names `mkstemp` is going to pick) -/
def AgreeOn (role : P → Role) (fs₁ fs₂ : FS P L) : Prop :=
  ∀ p, (role p = .input ∨ role p = .cache ∨ role p = .temp) → fs₁ p = fs₂ p

/-- what the first half of the property asks of one computation `t` whose paths have the roles `role`:
    (1) footprint; (2) its own temporary file is gone at the end; (3) inputs and unrelated files are unchanged;
    (4) the value (and the cache it leaves) does not depend on anything else in the directory. -/
structure DependsOnArgsOnly (role : P → Role) (t : Prog P L R) : Prop where
  footprint : Within role t
  temp_gone : ∀ fs : FS P L, (∀ p, role p = .temp → fs p = none) → ∀ p, role p = .temp → (t.exec fs).1 p = none
  frame : ∀ (fs : FS P L) p, (role p = .input ∨ role p = .other) → (t.exec fs).1 p = fs p
  same_value : ∀ fs₁ fs₂ : FS P L, AgreeOn role fs₁ fs₂ →
    (t.exec fs₁).2 = (t.exec fs₂).2 ∧ AgreeOn role (t.exec fs₁).1 (t.exec fs₂).1

/-! ### interleavings -/

structure Sys (P L R : Type) where
  fs : FS P L
  tasks : List (Prog P L R)

/-- one action of task `k` (a finished or non-existent task does nothing) -/
def Sys.step (s : Sys P L R) (k : Nat) : Sys P L R :=
  match s.tasks[k]? with
  | none => s
  | some t => ⟨(t.step s.fs).1, s.tasks.set k (t.step s.fs).2⟩

/-- a schedule is any list of task numbers -/
def Sys.run (s : Sys P L R) (sched : List Nat) : Sys P L R := sched.foldl Sys.step s

/-- outcome of task `i` in a system state (`none` = still running / no such task) -/
def Sys.outcome (s : Sys P L R) (i : Nat) : Option (Outcome R) := (s.tasks[i]?).bind Prog.outcome

/-- second half of the property: whatever the schedule, a task that has finished returned (or raised) exactly what
    it returns (raises) when it runs alone from the same initial directory -/
def Noninterfering (fs₀ : FS P L) (tasks : List (Prog P L R)) : Prop :=
  ∀ (sched : List Nat) (i : Nat) (o : Outcome R), (Sys.run ⟨fs₀, tasks⟩ sched).outcome i = some o →
    ∃ t, tasks[i]? = some t ∧ o = (t.exec fs₀).2

end
end Spec.C16
