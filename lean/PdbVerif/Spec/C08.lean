/-
  C08 — Fnat and clash count: what the property says, in its own vocabulary.  Nothing here looks at the code.

  "Fnat equals the number of reference residue-residue contacts (two residues of different chains having
   non-hydrogen atoms within the cutoff, 5 Å by default) that are also contacts in the decoy, divided by the
   number of reference contacts, where a reference contact whose residues are absent from the decoy counts as
   not preserved; it therefore always lies in [0,1] and is 1 when the decoy is the reference.  The clash count
   equals the number of inter-chain pairs of non-hydrogen atoms closer than 3 Å."

  A structure is a list of atoms.  A residue is identified by (chain, residue number).  A hydrogen is an atom
  whose name starts with `H` (the library's documented convention, the same as in Spec/C05).  Distances are
  compared through their squares (`distance ≤ c` means `0 ≤ c ∧ distance² ≤ c²`; `distance < c` means
  `0 < c ∧ distance² < c²`); no square root is computed.  The reported value has six decimals.
-/
import PdbVerif.Py.Atom
import PdbVerif.Py.Num

namespace Spec.C08
open Py

/-- a residue: (chain, residue number) -/
abbrev Res := Str × Int

def resOf (a : Atom) : Res := (a.chainID, a.resSeq)

def isHydrogen (a : Atom) : Bool := a.name.head? == some 'H'

def sqDist (a b : Atom) : Rat :=
  (a.x - b.x) * (a.x - b.x) + (a.y - b.y) * (a.y - b.y) + (a.z - b.z) * (a.z - b.z)

/-- distance(a, b) ≤ c -/
def within (c : Rat) (a b : Atom) : Bool := decide (0 ≤ c) && decide (sqDist a b ≤ c * c)

/-- distance(a, b) < c -/
def closer (c : Rat) (a b : Atom) : Bool := decide (0 < c) && decide (sqDist a b < c * c)

/-- the non-hydrogen atoms of residue `r` in structure `s` -/
def heavyAtoms (s : List Atom) (r : Res) : List Atom :=
  s.filter (fun a => decide (resOf a = r) && !isHydrogen a)

/-- residues `r₁`, `r₂` are in contact in `s`: they belong to different chains and own non-hydrogen atoms within
    the cutoff of each other.  A residue that is absent from `s` owns no atom, so it is in contact with nothing. -/
def inContact (c : Rat) (s : List Atom) (r₁ r₂ : Res) : Bool :=
  let B := heavyAtoms s r₂
  decide (r₁.1 ≠ r₂.1) && (heavyAtoms s r₁).any (fun a => B.any (fun b => within c a b))

/-- distinct elements, first occurrences kept -/
def distinct {α : Type} [DecidableEq α] : List α → List α
  | [] => []
  | x :: xs => x :: (distinct xs).filter (fun y => decide (y ≠ x))

/-- the residues of a structure -/
def residues (s : List Atom) : List Res := distinct (s.map resOf)

/-- chain identifiers are ordered as strings -/
def chainLt (a b : Str) : Bool := decide (a < b)

/-- the residue-residue contacts of `s`, each unordered pair listed once (the residue whose chain sorts first comes first) -/
def contacts (c : Rat) (s : List Atom) : List (Res × Res) :=
  (residues s).flatMap (fun r₁ =>
    ((residues s).filter (fun r₂ => chainLt r₁.1 r₂.1 && inContact c s r₁ r₂)).map (fun r₂ => (r₁, r₂)))

/-- the reference contacts that are also contacts in the decoy -/
def preserved (c : Rat) (ref dec : List Atom) : List (Res × Res) :=
  (contacts c ref).filter (fun p => inContact c dec p.1 p.2)

/-- Fnat; undefined (`none`) when the reference has no contact -/
def fnat (c : Rat) (ref dec : List Atom) : Option Rat :=
  if (contacts c ref).isEmpty then none
  else some (Py.round (((preserved c ref dec).length : Rat) / ((contacts c ref).length : Rat)) 6)

/-- a clash: two non-hydrogen atoms of different chains closer than `c`; listed once, the atom whose chain sorts first
    comes first -/
def isClash (c : Rat) (a b : Atom) : Bool :=
  chainLt a.chainID b.chainID && !isHydrogen a && !isHydrogen b && closer c a b

/-- the number of inter-chain pairs of non-hydrogen atoms closer than `c` (pairs of records: an atom is its record) -/
def clashCount (c : Rat) (s : List Atom) : Nat :=
  (s.flatMap (fun a => s.filter (fun b => isClash c a b))).length

/-- the clash count of the property: 3 Å -/
def clashes (s : List Atom) : Nat := clashCount 3 s

/-! ### the domain of the property: "reference/decoy pairs of two-chain complexes" with consistent residue naming -/

/-- `s` is a two-chain complex with chains `c₁ < c₂` -/
structure IsTwoChain (s : List Atom) (c₁ c₂ : Str) : Prop where
  lt : c₁ < c₂
  only : ∀ a ∈ s, a.chainID = c₁ ∨ a.chainID = c₂
  first : ∃ a ∈ s, a.chainID = c₁
  second : ∃ a ∈ s, a.chainID = c₂

/-- a residue (chain, number) carries one residue name throughout `s` (for a reference/decoy pair: `s = ref ++ dec`,
    "the decoy and the reference have consistent residue numbering") -/
def NamesConsistent (s : List Atom) : Prop :=
  ∀ a ∈ s, ∀ b ∈ s, resOf a = resOf b → a.resName = b.resName

instance (s : List Atom) : Decidable (NamesConsistent s) := by unfold NamesConsistent; infer_instance

end Spec.C08
