/-
  C17 — what a query / update on a (multi-table) database must answer, whatever the length of the value
  lists and whichever table is addressed: the row-by-row evaluation of the conditions on *that* table, or the
  documented "too many SQL variables" error when several conditions together exceed the limit.
  The two limits are parameters here (the theorems instantiate them with the constants of the source).
-/
import PdbVerif.Spec.C03
import PdbVerif.Spec.C04

namespace Spec
open Tbl

/-- number of values a condition lists (a scalar counts one) -/
def Arg.count : Arg → Nat
  | .scalar _ => 1
  | .list vs => vs.length

/-- "several conditions together exceed the limit": a single list never does — it is worked off in pieces of
    at most `piece` values — so a condition weighs `min count piece` -/
def weight (piece : Nat) (kws : List Kw) : Nat := (kws.map (fun k => min (Arg.count k.arg) piece)).sum

def tooMany (piece limit : Nat) (kws : List Kw) : Bool := weight piece kws > limit

inductive Answer
  | rejected                               -- unknown attribute / condition name / table: an error
  | tooManyVariables                       -- the documented error
  | rows (items : List Item)
  | perModel (per : List (List Item))      -- a file with several models: one answer per model
  deriving DecidableEq, Repr, Inhabited

def modelKw (m : Nat) : Kw := { key := "model".toList, arg := .scalar (.int m) }

def asksModel (kws : List Kw) : Bool := kws.any (fun k => k.key = "model".toList)

/-- one table, one conjunction -/
def answerOne (piece limit : Nat) (db : Db) (T : Table) (columns : Py.Str) (kws : List Kw) : Answer :=
  match get db.extra T columns kws with
  | none => .rejected
  | some items => if tooMany piece limit kws then .tooManyVariables else .rows items

/-- **The property**: the answer of `get(columns, tablename=tn, **kws)` -/
def getOn (piece limit : Nat) (db : Db) (columns tn : Py.Str) (kws : List Kw) : Answer :=
  match db.table? tn with
  | none => .rejected
  | some T =>
    if !asksModel kws && db.nModel > 0 then
      let per := (List.range db.nModel).map (fun m => answerOne piece limit db T columns (kws ++ [modelKw m]))
      if per.any (· = .rejected) then .rejected
      else if per.any (· = .tooManyVariables) then .tooManyVariables
      else .perModel (per.filterMap (fun a => match a with | .rows it => some it | _ => none))
    else answerOne piece limit db T columns kws

/-- `get_all`: the answer for every table, in the order of the tables -/
def getAll (piece limit : Nat) (db : Db) (columns : Py.Str) (kws : List Kw) : List Answer :=
  db.tabs.map (fun t => getOn piece limit db columns t.name kws)

end Spec
