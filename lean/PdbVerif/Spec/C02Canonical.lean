/-
  C02 — "ATOM records already in canonical form, such as those of the bundled crystal structures, are reproduced
  unchanged in columns 1–66 and 77–78".  This file says, column by column and purely syntactically, what a canonical
  record is.  Nothing here looks at the code, at `Gen` or at the models.
-/
import PdbVerif.Py.Num
import PdbVerif.Py.Atom
import PdbVerif.Spec.C01
import PdbVerif.Spec.C02

namespace Spec
open Py

/-- a natural number in decimal: digits only, no leading zero (except `0` itself) -/
def isCanonNat : Str → Bool
  | [] => false
  | [c] => isDigit c
  | c :: r => isDigit c && c != '0' && r.all isDigit

/-- an integer: optional `-`, never `+`, no leading zeros, never `-0` -/
def isCanonInt : Str → Bool
  | '-' :: r => isCanonNat r && r != ['0']
  | r => isCanonNat r

/-- the text `'%.kf'` produces: optional `-`, integer part without leading zeros, a point, exactly `k` digits;
    never a negative zero (`-0.000`) -/
def isCanonFixed (k : Nat) (s : Str) : Bool :=
  let neg := s.head? == some '-'
  let body := if neg then s.drop 1 else s
  let ip := body.takeWhile (· != '.')
  match body.dropWhile (· != '.') with
  | '.' :: fp =>
    isCanonNat ip && fp.length == k && fp.all isDigit && !(neg && ip == ['0'] && fp.all (· == '0'))
  | _ => false

/-- right-aligned in its field: blanks, then the text, nothing after it -/
def rightAligned (f : Str) : Bool := f == List.replicate (f.length - (strip f).length) ' ' ++ strip f

/-- a one-column field holding a blank or one visible character -/
def oneCharOrBlank (f : Str) : Bool :=
  match f with
  | [c] => c == ' ' || !isSpace c
  | _ => false

/-- a one-column field holding one visible character -/
def oneChar (f : Str) : Bool :=
  match f with
  | [c] => !isSpace c
  | _ => false

/-- the number denoted lies in the usual coordinate range (−999.5, 9999.5), where three decimals are printed -/
def usualRange (t : Str) : Bool :=
  match parseFloat t with
  | .ok v => decide (-(1999 : Rat) / 2 < v ∧ v < (19999 : Rat) / 2)
  | _ => false

/-- a right-aligned integer field (serial, resSeq) -/
def canonIntField (f : Str) : Bool := rightAligned f && isCanonInt (strip f)
/-- a right-aligned, non-blank text field (resName, element) -/
def canonTextField (f : Str) : Bool := rightAligned f && strip f != []
/-- a coordinate in the `%8.3f` form -/
def canonCoordField (f : Str) : Bool := rightAligned f && isCanonFixed 3 (strip f) && usualRange (strip f)
/-- occupancy / B-factor in the `%6.2f` form -/
def canonFixed2Field (f : Str) : Bool := rightAligned f && isCanonFixed 2 (strip f)

/-- An ATOM record in canonical form: 80 columns on one line; `ATOM  `; serial and resSeq right-aligned plain integers;
    the name placed in columns 13–16 by the wwPDB alignment rule for its element; altLoc and iCode one character or
    blank; resName and element right-aligned and non-blank; a visible chain identifier; coordinates `%8.3f` in the usual
    range; occupancy and B-factor `%6.2f`; columns 12, 21, 28–30 blank.  (Columns 67–76 and 79–80 — segment identifier
    and charge in wwPDB files — are not constrained: they are not reproduced.) -/
def isCanonical (l : Str) : Bool :=
  l.length == 80 && !l.contains '\n' &&
  rawCols l 1 6 == "ATOM  ".toList &&
  canonIntField (rawCols l 7 11) &&
  blank (rawCols l 12 12) &&
  rawCols l 13 16 == nameField (cols l 13 16) (cols l 77 78) &&
  oneCharOrBlank (rawCols l 17 17) &&
  canonTextField (rawCols l 18 20) &&
  blank (rawCols l 21 21) &&
  oneChar (rawCols l 22 22) &&
  canonIntField (rawCols l 23 26) &&
  oneCharOrBlank (rawCols l 27 27) &&
  blank (rawCols l 28 30) &&
  canonCoordField (rawCols l 31 38) && canonCoordField (rawCols l 39 46) && canonCoordField (rawCols l 47 54) &&
  canonFixed2Field (rawCols l 55 60) && canonFixed2Field (rawCols l 61 66) &&
  canonTextField (rawCols l 77 78)

def Canonical (l : Str) : Prop := isCanonical l = true

instance (l : Str) : Decidable (Canonical l) := inferInstanceAs (Decidable (isCanonical l = true))

/-- additionally nothing in the columns that are not reproduced: then the whole record is -/
def tailBlank (l : Str) : Bool := blank (rawCols l 67 76) && blank (rawCols l 79 80)

end Spec
