/-
  C03 — selection.  Part 1 (`namespace Tbl`): the vocabulary every table property of cluster B speaks in
  (values, rows, columns, attribute names, "decimal string form").  Part 2 (`namespace Spec`): what the
  property says — a query returns the atoms for which every keyword condition holds, each once, in input
  order, with the requested attributes in the requested order.  Nothing here looks at the code.
-/
import PdbVerif.Py.Atom
import PdbVerif.Py.Num
import PdbVerif.Py.Float

namespace Tbl

/-- A value as Python hands it to / gets it from the database: `int`, `float` (the exact rational the
    double denotes), `str`. -/
inductive Val
  | int (i : Int)
  | real (q : Rat)
  | text (s : Py.Str)
  deriving DecidableEq, Repr, Inhabited

/-- One record: the fourteen standard attributes and the values of the columns added later (in the order
    in which they were added). -/
structure Row where
  atom : Py.Atom
  extra : List Val := []
  deriving DecidableEq, Repr, Inhabited

abbrev Table := List Row

inductive StdCol
  | serial | name | altLoc | resName | chainID | resSeq | iCode | x | y | z | occ | temp | element | model
  deriving DecidableEq, Repr, Inhabited

/-- rowID (the zero-based position in the input), a standard attribute, or the k-th added column -/
inductive Col
  | rowID
  | std (c : StdCol)
  | extra (k : Nat)
  deriving DecidableEq, Repr, Inhabited

/-- the declared type of an attribute -/
inductive Kind | int | real | text
  deriving DecidableEq, Repr, Inhabited

/-- declared type of a column as SQLite classifies it (INT / REAL / anything else numeric / TEXT) -/
inductive Decl | integer | real | numeric | text
  deriving DecidableEq, Repr, Inhabited

def Kind.decl : Kind → Decl
  | .int => .integer | .real => .real | .text => .text

/-- an added column: its name and declared type -/
structure ColDef where
  name : Py.Str
  decl : Decl
  deriving DecidableEq, Repr, Inhabited

def StdCol.all : List StdCol :=
  [.serial, .name, .altLoc, .resName, .chainID, .resSeq, .iCode, .x, .y, .z, .occ, .temp, .element, .model]

def StdCol.pyName : StdCol → Py.Str
  | .serial => "serial".toList | .name => "name".toList | .altLoc => "altLoc".toList
  | .resName => "resName".toList | .chainID => "chainID".toList | .resSeq => "resSeq".toList
  | .iCode => "iCode".toList | .x => "x".toList | .y => "y".toList | .z => "z".toList
  | .occ => "occ".toList | .temp => "temp".toList | .element => "element".toList | .model => "model".toList

def StdCol.kind : StdCol → Kind
  | .serial | .resSeq | .model => .int
  | .x | .y | .z | .occ | .temp => .real
  | _ => .text

def rowIDName : Py.Str := "rowID".toList

/-- value of a standard attribute of a record -/
def Row.std (r : Row) : StdCol → Val
  | .serial => .int r.atom.serial | .name => .text r.atom.name | .altLoc => .text r.atom.altLoc
  | .resName => .text r.atom.resName | .chainID => .text r.atom.chainID | .resSeq => .int r.atom.resSeq
  | .iCode => .text r.atom.iCode | .x => .real r.atom.x | .y => .real r.atom.y | .z => .real r.atom.z
  | .occ => .real r.atom.occ | .temp => .real r.atom.temp | .element => .text r.atom.element
  | .model => .int r.atom.model

/-- the cell `(i, c)` of a table: `i` is the position of the record `r` in the input.  (A missing added
    cell reads as 0; well-formed tables — `extra.length` = number of added columns — never get there.) -/
def cell (c : Col) (i : Nat) (r : Row) : Val :=
  match c with
  | .rowID => .int i
  | .std s => r.std s
  | .extra k => r.extra.getD k (.int 0)

/-- a typed record can hold an `int` in an INT attribute, a `float` in a REAL one, a `str` in a TEXT one -/
def setStd (s : StdCol) (w : Val) (a : Py.Atom) : Option Py.Atom :=
  match s, w with
  | .serial, .int i => some { a with serial := i }
  | .resSeq, .int i => some { a with resSeq := i }
  | .model, .int i => some { a with model := i }
  | .x, .real q => some { a with x := q }
  | .y, .real q => some { a with y := q }
  | .z, .real q => some { a with z := q }
  | .occ, .real q => some { a with occ := q }
  | .temp, .real q => some { a with temp := q }
  | .name, .text t => some { a with name := t }
  | .altLoc, .text t => some { a with altLoc := t }
  | .resName, .text t => some { a with resName := t }
  | .chainID, .text t => some { a with chainID := t }
  | .iCode, .text t => some { a with iCode := t }
  | .element, .text t => some { a with element := t }
  | _, _ => none

structure Tab where
  name : Py.Str
  rows : Table
  deriving DecidableEq, Repr, Inhabited

/-- one database object: its tables (a `pdb2sql` has one, a `many2sql` several), the columns added so far,
    and the number of ENDMDL records of the input (`_nModel`) -/
structure Db where
  tabs : List Tab
  extra : List ColDef := []
  nModel : Nat := 0
  deriving DecidableEq, Repr, Inhabited

def Db.extraNames (db : Db) : List Py.Str := db.extra.map (·.name)

/-- attribute names of a table with added columns `extra`, as `get_colnames()` lists them -/
def colnames (extra : List Py.Str) : List Py.Str :=
  rowIDName :: (StdCol.all.map StdCol.pyName ++ extra)

/-- `get_colnames()` -/
def Db.colnames (db : Db) : List Py.Str := Tbl.colnames db.extraNames

/-- the attribute a name denotes (exact, case-sensitive); `none` = unknown name -/
def resolve (extra : List Py.Str) (n : Py.Str) : Option Col :=
  if n = rowIDName then some .rowID
  else match StdCol.all.find? (fun c => c.pyName = n) with
    | some c => some (.std c)
    | none => (extra.idxOf? n).map Col.extra

/-- all attributes but rowID, in table order: what `'*'` asks for -/
def starCols (extra : List Py.Str) : List Col :=
  StdCol.all.map Col.std ++ (List.range extra.length).map Col.extra

/-! ### decimal string forms -/

def sqlSpace (c : Char) : Bool :=
  c == ' ' || c == '\t' || c == '\n' || c == '\x0b' || c == '\x0c' || c == '\r'

def trimSql (s : Py.Str) : Py.Str := ((s.dropWhile sqlSpace).reverse.dropWhile sqlSpace).reverse

def allDigits (s : Py.Str) : Bool := !s.isEmpty && s.all Py.isDigit

def isE (c : Char) : Bool := c == 'e' || c == 'E'

/-- The number a text denotes when it is a well-formed decimal integer or real literal (blanks around it
    allowed, optional sign, optional fraction, optional exponent): an integer literal denotes that
    integer; any other literal denotes the double nearest to its decimal value.  `none`: not a number. -/
def numOfText (s : Py.Str) : Option Rat :=
  let t := trimSql s
  let (neg, body) := Py.splitSign t
  let (mant, erest) := body.span (fun c => !isE c)
  let (ip, frest) := mant.span (fun c => c != '.')
  let sgn (q : Rat) : Rat := if neg then -q else q
  let mantOK : Bool :=
    match frest with
    | [] => allDigits ip
    | _ :: fp => (ip.isEmpty || allDigits ip) && (fp.isEmpty || allDigits fp) && !(ip.isEmpty && fp.isEmpty)
  if !mantOK then none else
  let fp : Py.Str := frest.drop 1
  let m : Rat := (Py.digitsVal ip : Nat) + mkRat (Py.digitsVal fp : Nat) (Py.pow10 fp.length)
  match frest, erest with
  | [], [] => some (sgn m)                       -- integer literal: exact
  | _, [] => some (Py.toDouble (sgn m))
  | _, _ :: ex =>
    let (eneg, eb) := Py.splitSign ex
    if allDigits eb then
      let ev := Py.digitsVal eb
      let q := if eneg then m / (Py.pow10 ev : Nat) else m * (Py.pow10 ev : Nat)
      some (Py.toDouble (sgn q))
    else none

/-- decimal exponent of a positive rational: the `e` with `10^e ≤ a < 10^(e+1)` -/
def dexp (a : Rat) : Int :=
  let p10 (e : Int) : Rat := if e ≥ 0 then ((10 ^ e.toNat : Nat) : Rat) else 1 / ((10 ^ (-e).toNat : Nat) : Rat)
  let e0 : Int := ((Py.decDigits a.num.natAbs).length : Int) - ((Py.decDigits a.den).length : Int)
  if a < p10 e0 then e0 - 1 else if a ≥ p10 (e0 + 1) then e0 + 1 else e0

def stripTrailingZeros (s : Py.Str) : Py.Str := (s.reverse.dropWhile (· == '0')).reverse

/-- The text form of a real number (15 significant digits, at least one digit after the point,
    exponent form outside `1e-4 … 1e15`). -/
def textOfReal (q : Rat) : Py.Str :=
  if q = 0 then "0.0".toList else
  let a : Rat := if q < 0 then -q else q
  let p10 (e : Int) : Rat := if e ≥ 0 then ((10 ^ e.toNat : Nat) : Rat) else 1 / ((10 ^ (-e).toNat : Nat) : Rat)
  let e0 := dexp a
  let m0 := (Py.roundHE (a / p10 (e0 - 14))).natAbs
  let (m, e) : Nat × Int := if m0 ≥ 10 ^ 15 then (m0 / 10, e0 + 1) else (m0, e0)
  let ds := Py.decDigits m                                  -- 15 digits
  let body : Py.Str :=
    if e < -4 ∨ e ≥ 15 then
      let fr := stripTrailingZeros (ds.drop 1)
      let ex := Py.decDigits e.natAbs
      ds.take 1 ++ ['.'] ++ (if fr.isEmpty then ['0'] else fr) ++ ['e', if e < 0 then '-' else '+'] ++
        (if ex.length < 2 then '0' :: ex else ex)
    else if e ≥ 0 then
      let fr := stripTrailingZeros (ds.drop (e.toNat + 1))
      ds.take (e.toNat + 1) ++ ['.'] ++ (if fr.isEmpty then ['0'] else fr)
    else
      let fr := stripTrailingZeros ds
      ['0', '.'] ++ List.replicate ((-e).toNat - 1) '0' ++ fr
  if q < 0 then '-' :: body else body

def textOfInt (i : Int) : Py.Str := Py.intStr i

/-- the number a value carries, if it is a number -/
def Val.num? : Val → Option Rat
  | .int i => some (i : Rat)
  | .real q => some q
  | .text _ => none

/-! ### query arguments -/

/-- the value of a keyword condition: a scalar or a list -/
inductive Arg
  | scalar (v : Val)
  | list (vs : List Val)
  deriving DecidableEq, Repr, Inhabited

/-- a scalar acts as a one-element list -/
def Arg.vals : Arg → List Val
  | .scalar v => [v]
  | .list vs => vs

/-- one keyword argument of `get`/`update`: `name=['CA','N']`, `no_resSeq=5`, … -/
structure Kw where
  key : Py.Str
  arg : Arg
  deriving DecidableEq, Repr, Inhabited

/-- what a query returns per selected atom: the bare value (one attribute requested) or the list of values -/
inductive Item
  | one (v : Val)
  | many (vs : List Val)
  deriving DecidableEq, Repr, Inhabited

/-- strictly ascending list of the distinct members of `l` (`sorted(set(l))`), by insertion -/
def insertSorted {α : Type} (lt : α → α → Bool) [DecidableEq α] (a : α) : List α → List α
  | [] => [a]
  | b :: t => if lt a b then a :: b :: t else if a = b then b :: t else b :: insertSorted lt a t

def sortDedup {α : Type} (lt : α → α → Bool) [DecidableEq α] (l : List α) : List α :=
  l.foldr (insertSorted lt) []

def strLt (a b : Py.Str) : Bool := decide (a < b)

end Tbl

namespace Spec
open Tbl

/-- a keyword condition in the property's terms: attribute, positive/negated, listed values -/
structure Cond where
  col : Col
  neg : Bool
  vals : List Val
  deriving DecidableEq, Repr

/-- "the atom's attribute equals the listed value; numeric attributes also match their decimal string form".
    `numeric` = the attribute is declared numeric; `a` = the atom's attribute; `v` = the listed value.
    A text attribute equals a listed number when it is that number's text form. -/
def valMatches (numeric : Bool) (a v : Val) : Bool :=
  if numeric then
    match a, v with
    | .int i, .int j => i == j
    | .int i, .real q => (i : Rat) == q
    | .real p, .int j => p == (j : Rat)
    | .real p, .real q => p == q
    | .int i, .text t => numOfText t == some (i : Rat)
    | .real p, .text t => numOfText t == some p
    | .text s, .text t => s == t          -- a text kept in a numeric attribute equals only itself
    | .text _, _ => false
  else
    match v with
    | .text _ => a == v
    | .int j => a == .text (textOfInt j)
    | .real q => a == .text (textOfReal q)

/-- is the attribute declared numeric (rowID, INT and REAL attributes; an added column by its declaration) -/
def isNumeric (extra : List ColDef) : Col → Bool
  | .rowID => true
  | .std s => s.kind != .text
  | .extra k => (extra.getD k ⟨[], .numeric⟩).decl != .text

/-- a condition holds when the attribute equals one of the listed values; a negated one when it equals none -/
def Cond.holds (xd : List ColDef) (c : Cond) (i : Nat) (r : Row) : Bool :=
  let a := cell c.col i r
  let numeric := isNumeric xd c.col
  (c.vals.any (fun v => valMatches numeric a v)) != c.neg

/-- every keyword condition holds -/
def sat (xd : List ColDef) (q : List Cond) (ri : Row × Nat) : Bool :=
  q.all (fun c => c.holds xd ri.2 ri.1)

/-- the atoms a selection denotes, each once, in input order, with their positions -/
def selected (xd : List ColDef) (T : Table) (q : List Cond) : List (Row × Nat) :=
  T.zipIdx.filter (sat xd q)

/-- the requested attributes in the requested order; a single attribute flattened -/
def project (cs : List Col) (ri : Row × Nat) : Item :=
  match cs with
  | [c] => .one (cell c ri.2 ri.1)
  | _ => .many (cs.map (fun c => cell c ri.2 ri.1))

/-- `no_` prefix = negated condition -/
def splitNo (k : Py.Str) : Bool × Py.Str :=
  if "no_".toList.isPrefixOf k then (true, k.drop 3) else (false, k)

/-- keyword argument → condition; `none` = unknown condition name -/
def condOf (extra : List Py.Str) (kw : Kw) : Option Cond :=
  let (neg, k) := splitNo kw.key
  (resolve extra k).map (fun c => { col := c, neg := neg, vals := kw.arg.vals })

/-- `'x,y,z'` → attribute list; `'*'` → all attributes but rowID; `none` = unknown attribute name -/
def colsOf (extra : List Py.Str) (columns : Py.Str) : Option (List Col) :=
  if columns = "*".toList then some (starCols extra)
  else (Py.splitOn ',' columns).mapM (fun p => resolve extra (Py.strip p))

/-- **The property.**  `none` = rejected (unknown attribute or condition name). -/
def get (xd : List ColDef) (T : Table) (columns : Py.Str) (kws : List Kw) : Option (List Item) :=
  let extra := xd.map (·.name)
  match colsOf extra columns, kws.mapM (condOf extra) with
  | some cs, some q => some ((selected xd T q).map (project cs))
  | _, _ => none

/-- positions of the selected atoms -/
def positions (xd : List ColDef) (T : Table) (q : List Cond) : List Nat := (selected xd T q).map (·.2)

/-- distinct elements in order of first occurrence -/
def firstOccurrences {α : Type} [DecidableEq α] : List α → List α
  | [] => []
  | a :: t => a :: (firstOccurrences t).filter (· ≠ a)

/-- residues of a selection: distinct (chainID, resName, resSeq), in order of first occurrence -/
def residues (xd : List ColDef) (T : Table) (q : List Cond) : List (List Val) :=
  firstOccurrences ((selected xd T q).map (fun ri => [ri.1.std .chainID, ri.1.std .resName, ri.1.std .resSeq]))

end Spec
