/-
  C12 — what the property says, in its own vocabulary.  Nothing here looks at the code.
  Thresholds are parameters (f₁ f₃ f₅ for Fnat 0.1 0.3 0.5; l₁ l₅ l₁₀ for L-RMSD 1 5 10; i₁ i₂ i₄ for i-RMSD 1 2 4).
-/
import PdbVerif.Py.Num

namespace Spec

inductive Capri | incorrect | acceptable | medium | high
  deriving DecidableEq, Repr

def Capri.name : Capri → Py.Str
  | .incorrect => "incorrect".toList | .acceptable => "acceptable".toList
  | .medium => "medium".toList | .high => "high".toList

def Capri.rank : Capri → Nat
  | .incorrect => 0 | .acceptable => 1 | .medium => 2 | .high => 3

section
variable {α : Type} [LT α] [LE α] [DecidableLT α] [DecidableLE α]

/-- The four published criteria, verbatim from the property statement. -/
def isIncorrect (f₁ l₁₀ i₄ : α) (f l i : α) : Prop := f < f₁ ∨ (l > l₁₀ ∧ i > i₄)
def isAcceptable (f₁ f₃ l₅ l₁₀ i₂ i₄ : α) (f l i : α) : Prop :=
  ((f₁ ≤ f ∧ f < f₃) ∧ (l ≤ l₁₀ ∨ i ≤ i₄)) ∨ (f ≥ f₃ ∧ l > l₅ ∧ i > i₂)
def isMedium (f₃ f₅ l₁ l₅ i₁ i₂ : α) (f l i : α) : Prop :=
  ((f₃ ≤ f ∧ f < f₅) ∧ (l ≤ l₅ ∨ i ≤ i₂)) ∨ (f ≥ f₅ ∧ l > l₁ ∧ i > i₁)
def isHigh (f₅ l₁ i₁ : α) (f l i : α) : Prop := f ≥ f₅ ∧ (l ≤ l₁ ∨ i ≤ i₁)

instance (f₁ l₁₀ i₄ f l i : α) : Decidable (isIncorrect f₁ l₁₀ i₄ f l i) := by unfold isIncorrect; infer_instance
instance (f₁ f₃ l₅ l₁₀ i₂ i₄ f l i : α) : Decidable (isAcceptable f₁ f₃ l₅ l₁₀ i₂ i₄ f l i) := by unfold isAcceptable; infer_instance
instance (f₃ f₅ l₁ l₅ i₁ i₂ f l i : α) : Decidable (isMedium f₃ f₅ l₁ l₅ i₁ i₂ f l i) := by unfold isMedium; infer_instance
instance (f₅ l₁ i₁ f l i : α) : Decidable (isHigh f₅ l₁ i₁ f l i) := by unfold isHigh; infer_instance

/-- The published table read as a protocol "start with incorrect": the first criterion that holds;
    `none` if no criterion holds (the property claims this never happens). -/
def capriTable (f₁ f₃ f₅ l₁ l₅ l₁₀ i₁ i₂ i₄ : α) (f l i : α) : Option Capri :=
  if isIncorrect f₁ l₁₀ i₄ f l i then some .incorrect
  else if isAcceptable f₁ f₃ l₅ l₁₀ i₂ i₄ f l i then some .acceptable
  else if isMedium f₃ f₅ l₁ l₅ i₁ i₂ f l i then some .medium
  else if isHigh f₅ l₁ i₁ f l i then some .high
  else none

/-- The CAPRI definition as "the best class whose requirement is met". -/
def capriBest (f₁ f₃ f₅ l₁ l₅ l₁₀ i₁ i₂ i₄ : α) (f l i : α) : Capri :=
  if f ≥ f₅ ∧ (l ≤ l₁ ∨ i ≤ i₁) then .high
  else if f ≥ f₃ ∧ (l ≤ l₅ ∨ i ≤ i₂) then .medium
  else if f ≥ f₁ ∧ (l ≤ l₁₀ ∨ i ≤ i₄) then .acceptable
  else .incorrect
end

/-- DockQ by its formula over exact rationals, six decimals (round-half-even on the exact value). -/
def dockq (f l i d1 d2 : Rat) : Rat :=
  Py.round ((f + 1 / (1 + (l / d1) * (l / d1)) + 1 / (1 + (i / d2) * (i / d2))) / 3) 6

end Spec
