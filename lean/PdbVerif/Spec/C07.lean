/-
  C07 — i-RMSD and L-RMSD equal their definitions, with atoms paired by identity: what the property says, in its
  own vocabulary.  Nothing here looks at the code (imports: the atom record, 3-vectors, and the rotation vocabulary
  of Spec/C06).

  "The interface RMSD equals the minimal-superposition RMSD between decoy and reference over the backbone atoms
   (CA, C, N, O) present in both that belong to reference residues having any atom within the cutoff of the partner
   chain; the ligand RMSD equals the RMSD over the common backbone atoms of the shorter chain after optimally
   superposing the common backbone atoms of the longer chain.  Atoms are paired by identity (chain, residue number,
   atom name), never by position in the file; atoms or residues missing from one structure are left out of the
   calculation (or, while residue matching is enforced, the mismatch is reported as an error), values are reported to
   0.001 Å, and a decoy identical to the reference scores 0 on both."

  A structure is a list of atom records (`Py.Atom`); only chain, residue number, residue name, atom name and the
  coordinates are looked at.  Distances are compared through squares (`0 ≤ c ∧ d² ≤ c²`).
-/
import PdbVerif.Py.Atom
import PdbVerif.Py.Mat
import PdbVerif.Spec.C06

namespace Spec.Rmsd
open Py

abbrev P3 := Vec3 Rat
/-- identity of an atom: (chain, residue number, atom name) -/
abbrev Key := Str × Int × Str
/-- a pair of the calculation: the identity, the decoy's coordinates, the reference's coordinates -/
abbrev IdPair := Key × P3 × P3

def key (a : Atom) : Key := (a.chainID, a.resSeq, a.name)
def pos (a : Atom) : P3 := ⟨a.x, a.y, a.z⟩

/-- the backbone atom names of the statement -/
def backboneNames : List Str := ["CA".toList, "C".toList, "N".toList, "O".toList]
def isBackbone (a : Atom) : Bool := decide (a.name ∈ backboneNames)

def sqDist (p q : P3) : Rat := (p.x - q.x) * (p.x - q.x) + (p.y - q.y) * (p.y - q.y) + (p.z - q.z) * (p.z - q.z)

/-- distance(p, q) ≤ c -/
def within (c : Rat) (p q : P3) : Bool := decide (0 ≤ c) && decide (sqDist p q ≤ c * c)

/-! ### chains -/

def insertChain (x : Str) : List Str → List Str
  | [] => [x]
  | y :: ys => if decide (x < y) then x :: y :: ys else if x = y then y :: ys else y :: insertChain x ys

/-- the chains of a structure, each once, in the order of their identifiers (so "the first chain" makes sense) -/
def chains (t : List Atom) : List Str := (t.map (·.chainID)).foldl (fun acc x => insertChain x acc) []

/-- number of atoms of a chain -/
def chainSize (t : List Atom) (ch : Str) : Nat := (t.filter (fun a => decide (a.chainID = ch))).length

/-- (longer chain, shorter chain) of a two-chain reference: by atom count, the first chain when the counts are equal -/
def longShort (ref : List Atom) : Option (Str × Str) :=
  match chains ref with
  | [a, b] => if chainSize ref a ≥ chainSize ref b then some (a, b) else some (b, a)
  | _ => none

/-! ### which atoms, how paired -/

/-- the reference residue `(ch, rs)` has an atom within `c` of an atom of the partner chain -/
def atInterface (ref : List Atom) (c : Rat) (ch : Str) (rs : Int) : Bool :=
  ref.any (fun a => decide (a.chainID = ch) && decide (a.resSeq = rs) &&
    ref.any (fun b => decide (b.chainID ≠ ch) && within c (pos a) (pos b)))

/-- the atom of `t` with identity `k` -/
def atomWith (t : List Atom) (k : Key) : Option Atom := t.find? (fun a => decide (key a = k))

/-- the common backbone atoms among the reference atoms selected by `sel`, paired BY IDENTITY: for every reference
    backbone atom selected whose identity also occurs in the decoy, (identity, decoy coordinates, reference coordinates) -/
def commonBackbone (dec ref : List Atom) (sel : Atom → Bool) : List IdPair :=
  ref.filterMap (fun r =>
    if isBackbone r && sel r then (atomWith dec (key r)).map (fun d => (key r, pos d, pos r)) else none)

/-- the pairs of the interface RMSD -/
def interfacePairs (dec ref : List Atom) (c : Rat) : List IdPair :=
  commonBackbone dec ref (fun r => atInterface ref c r.chainID r.resSeq)

/-- the pairs the ligand RMSD superposes (longer chain of the reference) … -/
def ligandFitPairs (dec ref : List Atom) : List IdPair :=
  match longShort ref with
  | some (l, _) => commonBackbone dec ref (fun r => decide (r.chainID = l))
  | none => []

/-- … and the pairs it is evaluated on (shorter chain) -/
def ligandEvalPairs (dec ref : List Atom) : List IdPair :=
  match longShort ref with
  | some (_, s) => commonBackbone dec ref (fun r => decide (r.chainID = s))
  | none => []

/-! ### the quantifier: two-chain complexes with consistent numbering -/

def nodupKeys : List Key → Bool
  | [] => true
  | k :: ks => !ks.contains k && nodupKeys ks

/-- the same (chain, residue number) always carries the same residue name -/
def resNamesAgree (t : List Atom) : Bool :=
  t.all (fun a => t.all (fun b => !(decide (a.chainID = b.chainID) && decide (a.resSeq = b.resSeq)) || decide (a.resName = b.resName)))

/-- decidable form of the hypothesis of the theorems -/
def consistent (dec ref : List Atom) : Bool :=
  nodupKeys (dec.map key) && nodupKeys (ref.map key) && resNamesAgree (dec ++ ref) &&
  decide ((chains ref).length = 2) && decide (chains dec = chains ref)

/-- identities unique per file; one residue name per (chain, number) across both files; exactly two chains; same chains -/
def Consistent (dec ref : List Atom) : Prop := consistent dec ref = true

instance (dec ref : List Atom) : Decidable (Consistent dec ref) := by unfold Consistent; infer_instance

/-- full identity label of a record -/
def label (a : Atom) : Str × Int × Str × Str := (a.chainID, a.resSeq, a.resName, a.name)

/-- the two structures list the same atoms record for record (nothing missing, nothing reordered) -/
def sameAtoms (dec ref : List Atom) : Bool := decide (dec.map label = ref.map label)

/-- some atom identity (restricted to the names `names`, all when `none`) occurs in one structure only -/
def missingSomewhere (names : Option (List Str)) (dec ref : List Atom) : Bool :=
  let sel (a : Atom) : Bool := match names with | none => true | some ns => decide (a.name ∈ ns)
  let kd := (dec.filter sel).map key
  let kr := (ref.filter sel).map key
  kd.any (fun k => !kr.contains k) || kr.any (fun k => !kd.contains k)

/-! ### the value: minimal-superposition RMSD, reported to 0.001 -/

section
variable {α : Type}

/-- a motion `p ↦ R·p + t` -/
structure Motion (α : Type) where
  rot : Mat3 α
  tr : Vec3 α

def Motion.apply [Add α] [Mul α] (g : Motion α) (p : Vec3 α) : Vec3 α := Vec3.add (g.rot.mulVec p) g.tr

/-- rigid: the linear part is a proper rotation -/
def Motion.IsRigid [Add α] [Sub α] [Mul α] [OfNat α 0] [OfNat α 1] (g : Motion α) : Prop := IsRotation g.rot

/-- the motion that moves nothing -/
def Motion.id [OfNat α 0] [OfNat α 1] : Motion α := ⟨Mat3.one, Vec3.zero⟩

/-- `Σ ‖g(pₖ) − qₖ‖²` over the pairs (decoy point, reference point) -/
def sumSqDev [Add α] [Sub α] [Mul α] [OfNat α 0] (g : Motion α) : List (Vec3 α × Vec3 α) → α
  | [] => 0
  | pq :: rest => Vec3.normSq (Vec3.sub (g.apply pq.1) pq.2) + sumSqDev g rest

/-- mean squared deviation after the motion `g` (the RMSD is its square root) -/
def msd [Add α] [Sub α] [Mul α] [Div α] [NatCast α] [OfNat α 0] (g : Motion α) (l : List (Vec3 α × Vec3 α)) : α :=
  sumSqDev g l / ((l.length : Nat) : α)

/-- `m` is the mean squared deviation of the minimal superposition: attained by a rigid motion, not exceeded by any -/
def IsMinMsd [Add α] [Sub α] [Mul α] [Div α] [NatCast α] [OfNat α 0] [OfNat α 1] [LE α]
    (m : α) (l : List (Vec3 α × Vec3 α)) : Prop :=
  (∃ g : Motion α, g.IsRigid ∧ msd g l = m) ∧ ∀ g : Motion α, g.IsRigid → m ≤ msd g l

/-- `m` is the mean squared deviation of `eval` after a motion that superposes `fit` optimally -/
def IsFitThenEval [Add α] [Sub α] [Mul α] [Div α] [NatCast α] [OfNat α 0] [OfNat α 1] [LE α]
    (m : α) (fit eval : List (Vec3 α × Vec3 α)) : Prop :=
  ∃ g : Motion α, g.IsRigid ∧ (∀ h : Motion α, h.IsRigid → msd g fit ≤ msd h fit) ∧ msd g eval = m

end

/-- the coordinate pairs of a list of identity pairs -/
def coords (l : List IdPair) : List (P3 × P3) := l.map (·.2)

/-- `r` is `√m` reported to 0.001: a non-negative multiple of 1/1000 within half a unit of `√m` -/
def Reported (r m : Rat) : Prop :=
  (∃ k : Int, r = k / 1000) ∧ 0 ≤ r ∧ (r ≤ 1 / 2000 ∨ (r - 1 / 2000) * (r - 1 / 2000) ≤ m) ∧
    m ≤ (r + 1 / 2000) * (r + 1 / 2000)

/-- a decoy identical to the reference: every pair has equal coordinates -/
def allEqual (l : List (P3 × P3)) : Bool := l.all (fun pq => decide (pq.1 = pq.2))

end Spec.Rmsd
