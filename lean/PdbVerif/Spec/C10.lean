/-
  C10 — what the property says, in its own vocabulary.  Nothing here looks at the code.

  "Translations and rotations (axis-angle, Euler angles, explicit matrix) applied to a database move
   exactly the selected atoms by exactly the stated isometry — a right-handed rotation by the given angle
   about the given unit axis through the centroid of the selection (or the given centre); an Euler
   rotation equal to rotating about x by alpha, then about y by beta, then about z by gamma — and leave
   unselected atoms and all non-coordinate attributes untouched. …"

  An angle enters as the pair (c, s) = (cos, sin).  The right-handed rotation of a point `p` about the
  unit axis `u` through the origin is written in vector form (no matrix):
      p ↦ c·p + s·(u × p) + (1 − c)·(u·p)·u
  (the component along `u` is kept, the perpendicular component `v` goes to `c·v + s·(u × v)`).
-/
import PdbVerif.Py.Mat
import PdbVerif.Py.Atom
import PdbVerif.Spec.C06

namespace Spec
open Py

section
variable {α : Type} [Add α] [Sub α] [Mul α] [OfNat α 0] [OfNat α 1]

/-- right-handed rotation by (c, s) about the unit axis `u` through the origin, vector form -/
def axisRotate (c s : α) (u p : Vec3 α) : Vec3 α :=
  Vec3.add (Vec3.add (Vec3.smul c p) (Vec3.smul s (Vec3.cross u p))) (Vec3.smul (((1 : α) - c) * Vec3.dot u p) u)

def e1 : Vec3 α := ⟨1, 0, 0⟩
def e2 : Vec3 α := ⟨0, 1, 0⟩
def e3 : Vec3 α := ⟨0, 0, 1⟩

/-- "rotating about x by alpha, then about y by beta, then about z by gamma" -/
def eulerRotate (ca sa cb sb cg sg : α) (p : Vec3 α) : Vec3 α :=
  axisRotate cg sg e3 (axisRotate cb sb e2 (axisRotate ca sa e1 p))

/-- apply a map of the space about a centre: `c₀ + g(p − c₀)` -/
def about (g : Vec3 α → Vec3 α) (c0 p : Vec3 α) : Vec3 α := Vec3.add c0 (g (Vec3.sub p c0))

/-- squared distance -/
def dist2 (p q : Vec3 α) : α := Vec3.normSq (Vec3.sub p q)

/-- signed volume spanned by three points seen from a fourth (handedness) -/
def orient (o p q r : Vec3 α) : α := Vec3.dot (Vec3.sub p o) (Vec3.cross (Vec3.sub q o) (Vec3.sub r o))

end

/-! ### the database statement -/

abbrev Selection := Nat → Atom → Bool

def xyzOf (a : Atom) : Vec3 Rat := ⟨a.x, a.y, a.z⟩

/-- the coordinates of the selected rows, in row order (what the centroid of the selection is taken of) -/
def selectedXYZ (sel : Selection) (db : List Atom) : List (Vec3 Rat) :=
  (db.zipIdx.filter (fun ai => sel ai.2 ai.1)).map (fun ai => xyzOf ai.1)

/-- `db'` is `db` with exactly the selected rows moved by the point map `g`: same number and order of
    rows, every unselected row identical, every selected row identical in all eleven non-coordinate
    attributes and with coordinates `g (x, y, z)`. -/
def MovesExactly (sel : Selection) (g : Vec3 Rat → Vec3 Rat) (db db' : List Atom) : Prop :=
  db'.length = db.length ∧
  ∀ i : Nat, ∀ a a' : Atom, db[i]? = some a → db'[i]? = some a' →
    (sel i a = false → a' = a) ∧
    (sel i a = true →
      a' = { a with x := (g (xyzOf a)).x, y := (g (xyzOf a)).y, z := (g (xyzOf a)).z })

/-- every non-coordinate attribute equal -/
def SameAttrs (a a' : Atom) : Prop := a' = { a with x := a'.x, y := a'.y, z := a'.z }

/-- executable form of the same statement (what the Spec driver evaluates) -/
def moveSelected (sel : Selection) (g : Vec3 Rat → Vec3 Rat) (db : List Atom) : List Atom :=
  db.zipIdx.map (fun ai =>
    if sel ai.2 ai.1 then { ai.1 with x := (g (xyzOf ai.1)).x, y := (g (xyzOf ai.1)).y, z := (g (xyzOf ai.1)).z } else ai.1)

/-- the stated isometries -/
inductive Isometry
  | translation (v : Vec3 Rat)
  | axisAngle (c s : Rat) (u : Vec3 Rat)
  | euler (ca sa cb sb cg sg : Rat)
  | matrix (M : Mat3 Rat)

/-- the point map of an isometry applied to a selection whose coordinates are `X`: rotations go through
    the centroid of the selection -/
def Isometry.pointMap (X : List (Vec3 Rat)) : Isometry → Vec3 Rat → Vec3 Rat
  | .translation v => fun p => Vec3.add p v
  | .axisAngle c s u => about (axisRotate c s u) (centroid X)
  | .euler ca sa cb sb cg sg => about (eulerRotate ca sa cb sb cg sg) (centroid X)
  | .matrix M => about M.mulVec (centroid X)

/-- the table after the stated isometry has been applied to the selection -/
def applyIsometry (t : Isometry) (sel : Selection) (db : List Atom) : List Atom :=
  moveSelected sel (t.pointMap (selectedXYZ sel db)) db

def applyIsometries : List (Isometry × Selection) → List Atom → List Atom
  | [], db => db
  | (t, sel) :: rest, db => applyIsometries rest (applyIsometry t sel db)

end Spec
