/-
  C06 — what the property says, in its own vocabulary.  Nothing here looks at the code.

  "For any two equally sized, centred point sets the superposition kernel returns a proper rotation
   (orthogonal, determinant +1, never a reflection) whose residual RMSD is the minimum over all
   rotations, and the SVD and quaternion methods attain the same minimum … Uncentred or unequally
   sized input is rejected with an error."

  A rotation acts on a point as `p ↦ U·p`; the residual of `U` on paired sets `P`, `Q` is
  `Σₖ ‖U pₖ − qₖ‖²` (RMSD = √(residual / n); minimising one minimises the other).
-/
import PdbVerif.Py.Mat

namespace Spec
open Py

section
variable {α : Type} [Add α] [Sub α] [Mul α] [OfNat α 0] [OfNat α 1]

/-- orthogonal: both products with the transpose are the identity -/
def Orthogonal (M : Mat3 α) : Prop := M.mul M.T = Mat3.one ∧ M.T.mul M = Mat3.one

/-- proper rotation: orthogonal with determinant +1 (never a reflection) -/
def IsRotation (M : Mat3 α) : Prop := Orthogonal M ∧ M.det = 1

/-- `Σₖ ‖U pₖ − qₖ‖²` over the paired points -/
def sqResidual (U : Mat3 α) : List (Vec3 α) → List (Vec3 α) → α
  | p :: P, q :: Q => Vec3.normSq (Vec3.sub (U.mulVec p) q) + sqResidual U P Q
  | _, _ => 0

/-- `U` is a proper rotation and no proper rotation has a smaller residual -/
def OptimalRotation [LE α] (U : Mat3 α) (P Q : List (Vec3 α)) : Prop :=
  IsRotation U ∧ ∀ R : Mat3 α, IsRotation R → sqResidual U P Q ≤ sqResidual R P Q

/-- coordinate-wise sum of a point list -/
def vsum : List (Vec3 α) → Vec3 α
  | [] => Vec3.zero
  | p :: P => Vec3.add p (vsum P)

/-- centroid -/
def centroid [Div α] [NatCast α] (P : List (Vec3 α)) : Vec3 α :=
  let s := vsum P
  let n : α := (P.length : Nat)
  ⟨s.x / n, s.y / n, s.z / n⟩

/-- `|x| ≤ e` without an absolute-value function -/
def absLe [LE α] [Neg α] (x e : α) : Prop := -e ≤ x ∧ x ≤ e

/-- centred within the tolerance `eps`: every coordinate of the centroid is within `eps` of 0 -/
def Centred [LE α] [Neg α] [Div α] [NatCast α] (eps : α) (P : List (Vec3 α)) : Prop :=
  absLe (centroid P).x eps ∧ absLe (centroid P).y eps ∧ absLe (centroid P).z eps

/-- the inputs the property says must be rejected -/
def MustReject [LE α] [Neg α] [Div α] [NatCast α] (eps : α) (P Q : List (Vec3 α)) : Prop :=
  P.length ≠ Q.length ∨ ¬ Centred eps P ∨ ¬ Centred eps Q

/-- cross-covariance sum `Σₖ pₖ qₖᵀ` (so that `Σₖ qₖ·(U pₖ) = tr(U · crossCov P Q)`) -/
def crossCov : List (Vec3 α) → List (Vec3 α) → Mat3 α
  | p :: P, q :: Q => Mat3.add (Mat3.outer p q) (crossCov P Q)
  | _, _ => Mat3.zero

/-- `Σₖ ‖pₖ‖²` -/
def sumSq : List (Vec3 α) → α
  | [] => 0
  | p :: P => Vec3.normSq p + sumSq P

end

/-!
### Certificate form (what the Spec driver evaluates exactly in `Rat`)

`U` maximises `tr(R·B)` over the proper rotations — equivalently minimises the residual — iff
`M = U·B` is symmetric and `tr(M)·I − M` is positive semidefinite (first- and second-order
conditions of Wahba's problem; `Props.C06.certificate_sound` proves that they are sufficient).
The driver reports the defects of each condition; the harness states the tolerance.
-/

def rabs (x : Rat) : Rat := if x < 0 then -x else x
def rmax (l : List Rat) : Rat := l.foldl (fun a b => if a < b then b else a) 0
def rmin (l : List Rat) : Rat := match l with | [] => 0 | x :: t => t.foldl (fun a b => if b < a then b else a) x

structure Certificate where
  /-- max |(U·Uᵀ − I)ᵢⱼ|, |(Uᵀ·U − I)ᵢⱼ| -/
  orthDefect : Rat
  /-- |det U − 1| -/
  detDefect : Rat
  /-- max |Mᵢⱼ − Mⱼᵢ| for `M = U·B` -/
  asymDefect : Rat
  /-- the least of the seven principal minors of the symmetrised `tr(M)·I − M` (≥ 0 iff PSD) -/
  minMinor : Rat
  /-- the residual `Σ‖U p − q‖²` -/
  residual : Rat

def matEntries (M : Mat3 Rat) : List Rat := [M.a, M.b, M.c, M.d, M.e, M.f, M.g, M.h, M.i]

def maxAbsDiff (M N : Mat3 Rat) : Rat :=
  rmax ((List.zip (matEntries M) (matEntries N)).map (fun p => rabs (p.1 - p.2)))

/-- the seven principal minors of a symmetric 3×3 matrix (entries read from the upper triangle) -/
def principalMinors (N : Mat3 Rat) : List Rat :=
  [N.a, N.e, N.i,
   N.a * N.e - N.b * N.b, N.a * N.i - N.c * N.c, N.e * N.i - N.f * N.f,
   N.a * (N.e * N.i - N.f * N.f) - N.b * (N.b * N.i - N.f * N.c) + N.c * (N.b * N.f - N.e * N.c)]

/-- `B` is the cross-covariance scaled by the harness so that its largest entry is of order 1 -/
def certificate (U B : Mat3 Rat) (P Q : List (Vec3 Rat)) : Certificate :=
  let M := U.mul B
  let S : Mat3 Rat := ⟨M.a, (M.b + M.d) / 2, (M.c + M.g) / 2, (M.b + M.d) / 2, M.e, (M.f + M.h) / 2,
                        (M.c + M.g) / 2, (M.f + M.h) / 2, M.i⟩
  let t := S.a + S.e + S.i
  let N : Mat3 Rat := ⟨t - S.a, -S.b, -S.c, -S.d, t - S.e, -S.f, -S.g, -S.h, t - S.i⟩
  { orthDefect := rmax [maxAbsDiff (U.mul U.T) Mat3.one, maxAbsDiff (U.T.mul U) Mat3.one]
    detDefect := rabs (U.det - 1)
    asymDefect := maxAbsDiff M M.T
    minMinor := rmin (principalMinors N)
    residual := sqResidual U P Q }

end Spec
