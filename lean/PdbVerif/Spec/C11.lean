/-
  C11 — scores are invariant under changes that do not alter the structural relation: what the property says.
  Nothing here looks at the code.  Vocabulary of C07 (pairs of the two RMSDs) and C08 (Fnat, clash count) is reused.

  "i-RMSD, L-RMSD, Fnat and the clash count — and hence DockQ and the CAPRI class — do not change when the decoy, or
   decoy and reference together, undergo any rigid motion, when serial numbers, occupancies, B-factors or element
   fields change, when the same constant is added to all residue numbers of both structures, or (Fnat, clashes) when
   hydrogens are added.  Reordering the ATOM records of a structure yields either the same value or an explicit
   error, never a different number."

  This file names the changes; the invariance statements themselves are the theorems of Props/C11.lean.
-/
import PdbVerif.Spec.C07
import PdbVerif.Spec.C08

namespace Spec.Inv
open Py Spec.Rmsd

/-! ### rigid motion of a structure -/

/-- the record `a` with its coordinates moved by `g` (every other field untouched) -/
def moveAtom (g : Motion Rat) (a : Atom) : Atom :=
  let p := g.apply (pos a)
  { a with x := p.x, y := p.y, z := p.z }

def move (g : Motion Rat) (t : List Atom) : List Atom := t.map (moveAtom g)

/-! ### serial number, occupancy, B-factor, element -/

/-- two records that differ at most in serial number, occupancy, B-factor and element -/
def sameButIgnored (a b : Atom) : Bool :=
  decide (a.name = b.name) && decide (a.altLoc = b.altLoc) && decide (a.resName = b.resName) &&
  decide (a.chainID = b.chainID) && decide (a.resSeq = b.resSeq) && decide (a.iCode = b.iCode) &&
  decide (a.x = b.x) && decide (a.y = b.y) && decide (a.z = b.z) && decide (a.model = b.model)

def sameButIgnoredAll : List Atom → List Atom → Bool
  | [], [] => true
  | a :: t, b :: t' => sameButIgnored a b && sameButIgnoredAll t t'
  | _, _ => false

/-- record for record -/
def SameButIgnored (t t' : List Atom) : Prop := sameButIgnoredAll t t' = true

/-- the columns (0-based index in the record text) of serial 7–11, occupancy 55–60, B-factor 61–66, element 77–78 -/
def ignoredColumn (i : Nat) : Bool := (decide (6 ≤ i) && decide (i < 11)) || (decide (54 ≤ i) && decide (i < 66)) ||
  (decide (76 ≤ i) && decide (i < 78))

/-- two record texts of the same length that agree outside those columns -/
def LineSameButIgnored (l l' : Str) : Prop := l.length = l'.length ∧ ∀ i, ignoredColumn i = false → l[i]? = l'[i]?

/-! ### residue numbers -/

def shiftAtom (δ : Int) (a : Atom) : Atom := { a with resSeq := a.resSeq + δ }
/-- the same constant added to all residue numbers -/
def renumber (δ : Int) (t : List Atom) : List Atom := t.map (shiftAtom δ)
def shiftKey (δ : Int) (k : Key) : Key := (k.1, k.2.1 + δ, k.2.2)
def shiftPair (δ : Int) (p : IdPair) : IdPair := (shiftKey δ p.1, p.2)

/-! ### hydrogens -/

def isHydrogen (a : Atom) : Bool := a.name.head? == some 'H'
def heavy (t : List Atom) : List Atom := t.filter (fun a => !isHydrogen a)
/-- `t'` is `t` with hydrogens added (anywhere): the non-hydrogen records are the same, in the same order -/
def HydrogensAdded (t t' : List Atom) : Prop := heavy t' = heavy t

/-! ### pairs under the changes -/

/-- decoy coordinates of every pair moved by `g` -/
def moveDecoy (g : Motion Rat) (p : IdPair) : IdPair := (p.1, g.apply p.2.1, p.2.2)
/-- both coordinates moved -/
def moveBoth (g : Motion Rat) (p : IdPair) : IdPair := (p.1, g.apply p.2.1, g.apply p.2.2)

end Spec.Inv
