/-
  C01 — parsing, in the vocabulary of the property: the wwPDB columns as printed in the statement
  (1-based, inclusive), the documented defaults, the documented element rule.  Nothing here looks at
  the code or at `Gen`.
-/
import PdbVerif.Py.Num
import PdbVerif.Py.Atom

namespace Spec
open Py

/-- the columns named in the property statement (1-based, inclusive) -/
def wwpdbColumns : List (String × Nat × Nat) :=
  [("serial", 7, 11), ("name", 13, 16), ("altLoc", 17, 17), ("resName", 18, 20), ("chainID", 22, 22),
   ("resSeq", 23, 26), ("iCode", 27, 27), ("x", 31, 38), ("y", 39, 46), ("z", 47, 54),
   ("occ", 55, 60), ("temp", 61, 66), ("element", 77, 78)]

/-- the same table in 0-based half-open form: columns a–b ↦ [a-1, b) -/
def wwpdbHalfOpen : List (String × Nat × Nat) := wwpdbColumns.map fun (n, a, b) => (n, a - 1, b)

/-- a record is at most 80 columns; shorter records are read as if padded with blanks -/
def pad80 (l : Str) : Str := l ++ List.replicate (80 - l.length) ' '

/-- raw content of columns `a`–`b` (1-based, inclusive) -/
def rawCols (l : Str) (a b : Nat) : Str := (l.take b).drop (a - 1)

/-- content of columns `a`–`b` with surrounding blanks removed -/
def cols (l : Str) (a b : Nat) : Str := strip (rawCols l a b)

def isDigitChar (c : Char) : Bool := '0' ≤ c && c ≤ '9'

/-- The documented element rule on the four atom-name columns 13–16, result without padding:
      ` CA ` → C (name starts in column 14);  `1HG ` → H (leading digit);  `HE21` → H (four-character hydrogen);
      `CA  ` / `FE  ` / `C   ` → the first two columns, blanks removed. -/
def elementOfName (n : Str) : Str :=
  match n with
  | [c1, c2, _, c4] =>
    if isSpace c1 then [c2]
    else if isDigitChar c1 then [c2]
    else if c1 = 'H' ∧ ¬ isSpace c4 then ['H']
    else strip [c1, c2]
  | _ => []

def isAtomRecord (l : Str) : Bool := ("ATOM".toList).isPrefixOf l
def isEndmdl (l : Str) : Bool := ("ENDMDL".toList).isPrefixOf l

/-- the text of a record: up to the end of the line -/
def recordText (raw : Str) : Str := raw.takeWhile (· ≠ '\n')

/-- One ATOM record ↦ its row; an error where the text cannot be represented. -/
def parseRecord (raw : Str) (model : Int) : Except Err Row :=
  let t := recordText raw
  if t.length > 80 then .error .valueError else
  let l := pad80 t
  do
    let serial ← parseInt (cols l 7 11)
    let name := cols l 13 16
    let altLoc := cols l 17 17
    let resName := cols l 18 20
    let chain ←
      if cols l 22 22 = [] then
        (if cols l 73 76 = [] then Except.error Err.valueError else pure (cols l 73 76))   -- chain taken from segID
      else pure (cols l 22 22)
    let resSeq ← parseInt (cols l 23 26)
    let iCode := cols l 27 27
    let x ← parseFloat (cols l 31 38)
    let y ← parseFloat (cols l 39 46)
    let z ← parseFloat (cols l 47 54)
    let occ ← if cols l 55 60 = [] then pure (1 : Rat) else parseFloat (cols l 55 60)
    let temp ← if cols l 61 66 = [] then pure (10 : Rat) else parseFloat (cols l 61 66)
    let element := if cols l 77 78 = [] then elementOfName (rawCols l 13 16) else cols l 77 78
    pure [.int serial, .text name, .text altLoc, .text resName, .text chain, .int resSeq, .text iCode,
          .real x, .real y, .real z, .real occ, .real temp, .text element, .int model]

/-- One row per ATOM record, in input order; the model number is the number of ENDMDL records before it;
    every other record contributes nothing. -/
def parseFrom : List Str → Int → Except Err (List Row)
  | [], _ => pure []
  | l :: rest, n =>
    if isAtomRecord l then do
      let r ← parseRecord l n
      let rs ← parseFrom rest n
      pure (r :: rs)
    else if isEndmdl l then parseFrom rest (n + 1)
    else parseFrom rest n

def parse (records : List Str) : Except Err (List Row) := parseFrom records 0

end Spec
