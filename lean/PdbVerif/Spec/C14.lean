/-
  C14 — contact residues and residue extension: what the property says.  Nothing here looks at the code.

  A residue is identified by the triple (chain, residue number, residue name): residues that share a number but differ
  in name or chain are different residues.
-/
import PdbVerif.Spec.C05

namespace Spec.Contact
open Py

/-- (chain, residue number, residue name) -/
abbrev ResId := Str × Int × Str

def resOf (a : Atom) : ResId := (a.chainID, a.resSeq, a.resName)

/-- residues are listed in the order of their triples (chain, then number, then name) -/
def resLt (a b : ResId) : Bool :=
  strLt a.1 b.1 || (decide (a.1 = b.1) && (decide (a.2.1 < b.2.1) || (decide (a.2.1 = b.2.1) && strLt a.2.2 b.2.2)))

/-- the residues of the atoms at positions `S` -/
def residuesAt (t : List Atom) (S : List Nat) : List ResId :=
  ((atoms t).filter (fun p => S.contains p.2)).map (fun p => resOf p.1)

/-- contact residues of a chain: the distinct triples of that chain's contact atoms -/
def residuesOf (t : List Atom) (S : List Nat) : List ResId := sortDistinct resLt (residuesAt t S)

/-- residue view of the per-chain contact atoms -/
def residueSets (t : List Atom) (sets : List (Str × List Nat)) : List (Str × List ResId) :=
  sets.map (fun e => (e.1, residuesOf t e.2))

/-- distinct elements, first occurrences kept -/
def distinct {α : Type} [DecidableEq α] : List α → List α
  | [] => []
  | x :: xs => x :: (distinct xs).filter (fun y => decide (y ≠ x))

/-- projection of the atom pair map onto residues: a residue `K` of a first-chain atom is mapped to the distinct residues
    of all partners of all atoms of `K` -/
def residuePairMap (t : List Atom) (m : List (Nat × List Nat)) : List (ResId × List ResId) :=
  let rm : List (ResId × List ResId) :=
    m.flatMap (fun e => (residuesAt t [e.1]).map (fun K => (K, residuesAt t e.2)))
  (distinct (rm.map (·.1))).map (fun K => (K, sortDistinct resLt ((rm.filter (fun e => decide (e.1 = K))).flatMap (·.2))))

/-- extension of the atom set `S` to whole residues: all atoms — all backbone atoms when `bb` — of every residue that
    owns at least one atom of `S` (ascending positions) -/
def extension (backbone : List Str) (t : List Atom) (S : List Nat) (bb : Bool) : List Nat :=
  let owners := residuesAt t S
  ((atoms t).filter (fun p => owners.contains (resOf p.1) && (!bb || decide (p.1.name ∈ backbone)))).map (·.2)

end Spec.Contact
