/-
  C15 — derived databases are faithful snapshots and independent afterwards.
  A family of database objects, each with its own private tables.  `roundtrip` = "export as PDB text and parse
  again" (PDB text precision; the models of parsing / formatting belong to C01 / C02) is a parameter.
-/
import PdbVerif.Spec.C03
import PdbVerif.Spec.C04

namespace Tbl

/-- `pdb2sql` / `interface` objects hold one table, `many2sql` objects several -/
inductive ObjKind | single | many
  deriving DecidableEq, Repr, Inhabited

structure Obj where
  kind : ObjKind
  db : Db
  deriving Repr, Inhabited

/-- one step of a history over a growing family of objects -/
inductive WOp
  | modify (k : Nat) (op : Op)                 -- a C04 modification of object k
  | deriveSub (k : Nat) (kw : List Kw)         -- `objs[k](**kw)`
  | deriveInterface (k : Nat)                  -- `interface(objs[k])`
  | deriveMany (ks : List Nat)                 -- `many2sql([objs[k] for k in ks])`
  deriving Repr, Inhabited

end Tbl

namespace Spec
open Tbl

/-- the atoms a sub-selection keeps, in order, with their standard attribute values at that moment -/
def snapshotRows (extra : List ColDef) (T : Table) (kw : List Kw) : Option Table :=
  (kw.mapM (condOf (extra.map (·.name)))).map (fun q => (selected extra T q).map (·.1))

/-- the table a derived object starts with: the selected atoms after the text round trip -/
def derivedTable (roundtrip : Table → Table) (extra : List ColDef) (T : Table) (kw : List Kw) : Option Table :=
  (snapshotRows extra T kw).map roundtrip

end Spec
