/-
  C19 — many2sql: the intersection is exactly the common atoms, row-aligned per structure.
  What the property says: a matching key (the values of the match attributes) belongs to the intersection iff
  it occurs in every structure; row i of every structure carries the same key, with that structure's own
  values for all other attributes.  Row order is not part of the property.
-/
import PdbVerif.Spec.C03

namespace Spec
open Tbl

/-- the matching key of an atom: its values of the match attributes -/
def keyOf (m : List StdCol) (r : Row) : List Val := m.map r.std

/-- the keys that occur in every structure -/
def commonKeys (m : List StdCol) (tables : List Table) : List (List Val) :=
  match tables with
  | [] => []
  | T :: rest => ((T.map (keyOf m)).filter (fun k => rest.all (fun T' => (T'.map (keyOf m)).contains k)))

/-- **The property** as a reference answer (for structures whose keys are unique): one aligned tuple per common
    key — the atom of every structure that carries it — listed by the first structure's order -/
def intersection (m : List StdCol) (tables : List Table) : List (List Row) :=
  match tables with
  | [] => []
  | T :: rest =>
    T.filterMap (fun r =>
      (rest.mapM (fun (T' : Table) => List.find? (fun r' => keyOf m r' == keyOf m r) T')).map (fun rs => r :: rs))

/-- the default match attributes: name, resName, resSeq, chainID -/
def defaultMatch : List StdCol := [.name, .resName, .resSeq, .chainID]

end Spec
