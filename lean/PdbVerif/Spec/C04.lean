/-
  C04 — update.  What the property says: after a modification the table is what a plain list-of-records
  model predicts — the i-th supplied value row lands on the i-th selected atom, values read back equal in
  value, nothing else changes; a shape mismatch is rejected and nothing changes.  Nothing here looks at the code.
-/
import PdbVerif.Spec.C03
import PdbVerif.Py.List

namespace Tbl

/-- the modifications of a database object (the API surface, arguments as the caller writes them) -/
inductive Op
  | update (columns : Py.Str) (values : List (List Val)) (tn : Py.Str) (kw : List Kw)
  | updateXyz (values : List (List Val)) (tn : Py.Str) (kw : List Kw)
  | updateColumn (colname : Py.Str) (values : List Val) (index : Option (List Val)) (tn : Py.Str)
  | addColumn (name coltype : Py.Str) (value : Val) (tn : Py.Str)
  | fixChainID
  deriving Repr, Inhabited

/-- SQLite's rule for the declared type of a new column (`none`: BLOB, not modelled) -/
def declOfType (ty : Py.Str) : Option Decl :=
  let u := ty.map Char.toUpper
  if Py.strIn "INT".toList u then some .integer
  else if Py.strIn "CHAR".toList u || Py.strIn "CLOB".toList u || Py.strIn "TEXT".toList u then some .text
  else if Py.strIn "BLOB".toList u then none
  else if Py.strIn "REAL".toList u || Py.strIn "FLOA".toList u || Py.strIn "DOUB".toList u then some .real
  else some .numeric

/-- table names are SQL identifiers: letter case does not matter -/
def sameName (a b : Py.Str) : Bool := Py.lower a == Py.lower b

def Db.table? (db : Db) (tn : Py.Str) : Option Table :=
  (db.tabs.find? (fun t => sameName t.name tn)).map (·.rows)

def Db.setTable (db : Db) (tn : Py.Str) (rows : Table) : Db :=
  { db with tabs := db.tabs.map (fun t => if sameName t.name tn then { t with rows := rows } else t) }

end Tbl

namespace Spec
open Tbl

/-- the value an attribute declared `d` holds after `v` was written to it, *equal in value* to `v`
    (`none`: no such value — e.g. a string written to a REAL attribute — outside the property) -/
def coerce (d : Decl) (v : Val) : Option Val :=
  match d, v with
  | .text, .text s => some (.text s)
  | .text, _ => none
  | .real, .int i => some (.real i)
  | .real, .real q => some (.real q)
  | .real, .text _ => none
  | _, .int i => some (.int i)
  | _, .real q => some (if q.den = 1 then .int q.num else .real q)
  | _, .text s => if numOfText s = none then some (.text s) else none

def declOf (extra : List ColDef) : Col → Decl
  | .rowID => .integer
  | .std s => s.kind.decl
  | .extra k => (extra.getD k ⟨[], .numeric⟩).decl

/-- cell `c` of record `r` now holds `v` -/
def writeCell (extra : List ColDef) (c : Col) (v : Val) (r : Row) : Option Row :=
  match c with
  | .rowID => none
  | .std s => do
    let w ← coerce s.kind.decl v
    let a ← setStd s w r.atom
    pure { r with atom := a }
  | .extra k =>
    if k < r.extra.length then
      (coerce (declOf extra (.extra k)) v).map (fun w => { r with extra := r.extra.set k w })
    else none

/-- the value row `vs` lands on the attributes `cs` of record `r` -/
def writeRow (extra : List ColDef) : List Col → List Val → Row → Option Row
  | [], [], r => some r
  | c :: cs, v :: vs, r => (writeCell extra c v r).bind (writeRow extra cs vs)
  | _, _, _ => none

/-- **assign**: `vals[i]` lands on the record at position `sel[i]`, attributes `cs`; every other record is
    left as it is; row count and order are kept by construction.  `none`: some value cannot be held. -/
def assign (extra : List ColDef) (T : Table) (sel : List Nat) (cs : List Col) (vals : List (List Val)) : Option Table :=
  T.zipIdx.mapM (fun rp =>
    match sel.idxOf? rp.2 with
    | none => some rp.1
    | some i => writeRow extra cs (vals.getD i []) rp.1)

/-- what the property says about one step -/
inductive Outcome
  | ok (db : Db)        -- the step succeeds and leaves this state
  | reject              -- the step must raise and leave the state as it was
  | outside             -- the property does not speak about this call (see the comments at each case)
  deriving Repr, Inhabited

def shapesAgree (ncols nsel : Nat) (values : List (List Val)) : Bool :=
  values.length = nsel && values.all (fun r => r.length = ncols)

/-- update of the attributes `columns` on the selection `kw` of table `tn` -/
def stepUpdate (db : Db) (columns : Py.Str) (values : List (List Val)) (tn : Py.Str) (kw : List Kw) : Outcome :=
  if db.nModel > 0 then .outside else              -- multi-model files: one update per model (see C17)
  let names := db.extraNames
  let colNames := if columns.contains ',' then Py.splitOn ',' columns else [columns]
  match colNames.mapM (resolve names), kw.mapM (condOf names), db.table? tn with
  | some cs, some q, some T =>
    if cs.contains .rowID then .outside else        -- re-numbering rows is not a cell update
    let sel := positions db.extra T q
    if !shapesAgree cs.length sel.length values then .reject
    else if values.isEmpty then .outside            -- nothing selected, nothing supplied
    else match assign db.extra T sel cs values with
      | some T' => .ok (db.setTable tn T')
      | none => .outside                            -- a value that the attribute cannot hold "equal in value"
  | _, _, _ => .reject                              -- unknown attribute, condition name or table

/-- `update_column` pairs values with rows: the i-th value with row i, or with row `index[i]`, for as many
    pairs as both lists yield; a pair whose index is no position of the table addresses nothing -/
def columnPairs (n : Nat) (values : List Val) (index : Option (List Val)) : Option (List (Nat × Val)) :=
  match index with
  | none => some ((values.zipIdx.filter (fun vi => vi.2 < n)).map (fun vi => (vi.2, vi.1)))
  | some idx =>
    ((values.zip idx).mapM (fun (vi : Val × Val) => match vi.2 with
      | Val.int i => some (if 0 ≤ i ∧ i < n then some (i.toNat, vi.1) else none)
      | _ => (none : Option (Option (Nat × Val))))).map (fun l => List.filterMap id l)

def stepUpdateColumn (db : Db) (colname : Py.Str) (values : List Val) (index : Option (List Val)) (tn : Py.Str) : Outcome :=
  match resolve db.extraNames colname, db.table? tn with
  | some c, some T =>
    if c = .rowID then .outside else
    match columnPairs T.length values index with
    | none => .outside                               -- indices that are not integers
    | some pairs =>
      let sel := pairs.map (·.1)
      if !sel.Nodup then .outside                    -- a row addressed twice
      else match assign db.extra T sel [c] (pairs.map (fun pv => [pv.2])) with
        | some T' => .ok (db.setTable tn T')
        | none => .outside
  | _, _ => .reject

def isWord (s : Py.Str) : Bool :=
  match s with
  | [] => false
  | c :: _ => (c.isAlpha || c == '_') && s.all (fun c => c.isAlphanum || c == '_')

/-- a new attribute with the same value in every record, after all existing ones; nothing else changes -/
def stepAddColumn (db : Db) (name coltype : Py.Str) (value : Val) (tn : Py.Str) : Outcome :=
  match db.tabs with
  | [tab] =>
    if !sameName tab.name tn then .reject
    else if !isWord name || !isWord coltype then .outside
    else if (db.colnames.map Py.lower).contains (Py.lower name) then
      (if Py.lower name = Py.lower rowIDName then .outside else .reject)       -- the attribute exists already
    else if ["oid".toList, "_rowid_".toList].contains (Py.lower name) then .outside
    else match declOfType coltype with
      | none => .outside
      | some d =>
        let ok : Bool := match value with
          | .text s => isWord s && !["null".toList, "true".toList, "false".toList, "current_time".toList,
              "current_date".toList, "current_timestamp".toList].contains (Py.lower s)
          | _ => true
        if !ok then .outside else
        let w : Val := match coerce d value with
          | some w => w
          | none => match value with                 -- a number in a TEXT attribute reads back as its text form
            | .int i => .text (textOfInt i)
            | .real q => .text (textOfReal q)
            | .text s => .text s
        .ok { db with tabs := [{ tab with rows := tab.rows.map (fun r => { r with extra := r.extra ++ [w] }) }],
                      extra := db.extra ++ [{ name := name, decl := d }] }
  | _ => .outside

def letterOf (k : Nat) : Py.Str := [Char.ofNat (65 + k)]

/-- chains are renamed A, B, C, … by the rank of their identifier among the sorted distinct identifiers;
    nothing else changes -/
def fixChains (T : Table) : Table :=
  let ids := sortDedup strLt (T.map (fun r => r.atom.chainID))
  T.map (fun r => { r with atom := { r.atom with chainID := letterOf (ids.idxOf r.atom.chainID) } })

def stepFixChainID (db : Db) : Outcome :=
  if db.nModel > 0 then .outside else
  match db.table? "ATOM".toList with
  | none => .reject
  | some T =>
    if (sortDedup strLt (T.map (fun r => r.atom.chainID))).length > 26 then .outside
    else .ok (db.setTable "ATOM".toList (fixChains T))

/-- **the reference model of the property**: one step on the plain list-of-records -/
def step (db : Db) : Op → Outcome
  | .update columns values tn kw => stepUpdate db columns values tn kw
  | .updateXyz values tn kw => stepUpdate db "x,y,z".toList values tn kw
  | .updateColumn c values index tn => stepUpdateColumn db c values index tn
  | .addColumn n ty v tn => stepAddColumn db n ty v tn
  | .fixChainID => stepFixChainID db

end Spec
