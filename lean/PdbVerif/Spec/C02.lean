/-
  C02 — export, in the vocabulary of the property: a *checker* for one written line against the row it
  was written from (fixed columns, widths, precision), and for a row read back against the original.
  `Py.fmtFixed` (correctly rounded `'{:.kf}'`) is the runtime model's definition of "printed with k decimals".
-/
import PdbVerif.Py.Num
import PdbVerif.Py.Atom
import PdbVerif.Spec.C01

namespace Spec
open Py

def absR (x : Rat) : Rat := if x < 0 then -x else x

/-- number of digits after the decimal point of a printed number -/
def decimalsOf (s : Str) : Nat :=
  match splitOn '.' s with
  | [_, f] => f.length
  | _ => 0

/-- printed with `k` decimals the coordinate needs at most 8 columns -/
def fits (x : Rat) (k : Nat) : Bool := (fmtFixed x k).length ≤ 8

/-- the largest number of decimals ≤ 3 with which `x` fits its 8 columns; `none` if it does not fit at all -/
def maxFit (x : Rat) : Option Nat :=
  if fits x 3 then some 3 else if fits x 2 then some 2 else if fits x 1 then some 1 else if fits x 0 then some 0 else none

/-- within half a unit of a power of ten (10¹ … 10⁸) in magnitude -/
def nearPow10 (x : Rat) : Bool :=
  (List.range 9).any fun m => absR (absR x - ((10 ^ m : Nat) : Rat)) ≤ 1 / 2

/-- decimals the property demands for `x`: three in the usual range, otherwise as many as fit, one fewer
    tolerated within half a unit of a power of ten -/
def neededDecimals (x : Rat) : Option Nat :=
  if (-(1999 : Rat) / 2 < x ∧ x < (19999 : Rat) / 2) then some 3
  else (maxFit x).map fun k => if nearPow10 x then k - 1 else k

def halfUnit (k : Nat) : Rat := 1 / (2 * ((10 ^ k : Nat) : Rat))

/-- A decimal text read back into a binary64 number is the double nearest to it: the representation error of
    that conversion (at most one unit in the last place, ≤ |x|·2⁻⁵²) is allowed on top of the decimal tolerance. -/
def reprSlack (x : Rat) : Rat := absR x / ((2 ^ 52 : Nat) : Rat)

/-- one coordinate field: exactly 8 columns, enough decimals, denotes `x` to half a unit of its last digit -/
def coordOK (x : Rat) (field : Str) : Bool :=
  field.length = 8 &&
  (let t := strip field
   let k := decimalsOf t
   match parseFloat t, neededDecimals x with
   | .ok v, some need => decide (need ≤ k) && decide (absR (v - x) ≤ halfUnit k + reprSlack x)
   | _, _ => false)

/-- a two-decimal field (occupancy, B-factor): 6 columns, value within 0.005 -/
def fixed2OK (x : Rat) (field : Str) : Bool :=
  field.length = 6 &&
  (match parseFloat (strip field) with
   | .ok v => decide (absR (v - x) ≤ (1 : Rat) / 200 + reprSlack x)
   | _ => false)

def blank (s : Str) : Bool := s.all (· = ' ')

/-- The atom name in its four columns 13–16 by the wwPDB alignment rule the library documents: a name starts in
    column 14 — except a four-character name, a name that is its own two-letter element symbol (FE, ZN, CA of calcium)
    and a three-character name with a leading digit (1HB), which start in column 13. -/
def nameField (name element : Str) : Str :=
  match name with
  | [c] => [' ', c, ' ', ' ']
  | [c, d] => if name = element then [c, d, ' ', ' '] else [' ', c, d, ' ']
  | [c, d, e] => if isDigitChar c then [c, d, e, ' '] else [' ', c, d, e]
  | _ => name

/-- names of the clauses of the column layout that `line` violates for `row` (empty = the line is right) -/
def lineFailures (a : Atom) (line : Str) : List String :=
  let c (nm : String) (ok : Bool) : List String := if ok then [] else [nm]
  c "length80" (line.length = 80) ++
  c "record" (rawCols line 1 6 = "ATOM  ".toList) ++
  c "serial" (cols line 7 11 = intStr a.serial) ++
  c "col12" (blank (rawCols line 12 12)) ++
  c "name" (cols line 13 16 = a.name) ++
  c "nameAlign" (rawCols line 13 16 = nameField a.name a.element) ++
  c "altLoc" (cols line 17 17 = a.altLoc) ++
  c "resName" (cols line 18 20 = a.resName) ++
  c "col21" (blank (rawCols line 21 21)) ++
  c "chainID" (cols line 22 22 = a.chainID) ++
  c "resSeq" (cols line 23 26 = intStr a.resSeq) ++
  c "iCode" (cols line 27 27 = a.iCode) ++
  c "col28-30" (blank (rawCols line 28 30)) ++
  c "x" (coordOK a.x (rawCols line 31 38)) ++
  c "y" (coordOK a.y (rawCols line 39 46)) ++
  c "z" (coordOK a.z (rawCols line 47 54)) ++
  c "occ" (fixed2OK a.occ (rawCols line 55 60)) ++
  c "temp" (fixed2OK a.temp (rawCols line 61 66)) ++
  c "col67-76" (blank (rawCols line 67 76)) ++
  c "element" (cols line 77 78 = a.element) ++
  c "col79-80" (blank (rawCols line 79 80))

/-- the row read back (`b`) equals the original (`a`): coordinates within half a unit of the precision with
    which they were printed (`kx ky kz` decimals), occupancy and B-factor within 0.005, everything else identical -/
def readBackOK (a b : Atom) (kx ky kz : Nat) : Bool :=
  a.serial = b.serial && a.name = b.name && a.altLoc = b.altLoc && a.resName = b.resName &&
  a.chainID = b.chainID && a.resSeq = b.resSeq && a.iCode = b.iCode && a.element = b.element &&
  decide (absR (a.x - b.x) ≤ halfUnit kx + reprSlack a.x) && decide (absR (a.y - b.y) ≤ halfUnit ky + reprSlack a.y) &&
  decide (absR (a.z - b.z) ≤ halfUnit kz + reprSlack a.z) &&
  decide (absR (a.occ - b.occ) ≤ (1 : Rat) / 200 + reprSlack a.occ) &&
  decide (absR (a.temp - b.temp) ≤ (1 : Rat) / 200 + reprSlack a.temp)

/-- the values at which the coordinate format switches precision (±(10^m − 1/2) on the positive side for m = 4,5,6,
    10^m − 1/2 on the negative side for m = 3,4,5) -/
def switchThresholds : List Rat :=
  [(19999 : Rat) / 2, (199999 : Rat) / 2, (1999999 : Rat) / 2, -(1999 : Rat) / 2, -(19999 : Rat) / 2, -(199999 : Rat) / 2]

def onThreshold (x : Rat) : Bool := switchThresholds.contains x

/-- Writing the table that was read back (`b`) again gives line `l2`: each coordinate field must again denote the value
    in `b` to within half a unit of the precision it is printed with, and `l2` must be the identical text as the first
    export `l1` except in a coordinate field whose value sits exactly on a format-switch threshold (or is zero: a
    negative zero cannot be told apart in this model and is tolerated the same way). -/
def reexportOK (b : Atom) (l1 l2 : Str) : Bool :=
  let coord (x : Rat) (a c : Nat) : Bool :=
    coordOK x (rawCols l2 a c) && (rawCols l1 a c == rawCols l2 a c || onThreshold x || x == 0)
  -- occupancy / B-factor: same text, or the value read back is zero (again: a negative zero, printed "-0.00" by
  -- CPython, is outside this model) and the field still denotes it
  let fixed2 (v : Rat) (a c : Nat) : Bool :=
    rawCols l1 a c == rawCols l2 a c || (v == 0 && fixed2OK v (rawCols l2 a c))
  rawCols l1 1 30 == rawCols l2 1 30 && fixed2 b.occ 55 60 && fixed2 b.temp 61 66 && rawCols l1 67 80 == rawCols l2 67 80 &&
  coord b.x 31 38 && coord b.y 39 46 && coord b.z 47 54

/-- values for which the property promises a well-formed line -/
def Fits (a : Atom) : Prop :=
  -9999 ≤ a.serial ∧ a.serial ≤ 99999 ∧ -999 ≤ a.resSeq ∧ a.resSeq ≤ 9999 ∧
  1 ≤ a.name.length ∧ a.name.length ≤ 4 ∧ strip a.name = a.name ∧
  a.altLoc.length ≤ 1 ∧ strip a.altLoc = a.altLoc ∧
  1 ≤ a.resName.length ∧ a.resName.length ≤ 3 ∧ strip a.resName = a.resName ∧
  a.chainID.length ≤ 1 ∧ strip a.chainID = a.chainID ∧
  a.iCode.length ≤ 1 ∧ strip a.iCode = a.iCode ∧
  1 ≤ a.element.length ∧ a.element.length ≤ 2 ∧ strip a.element = a.element ∧
  -(9999 : Rat) / 100 ≤ a.occ ∧ a.occ ≤ (99999 : Rat) / 100 ∧
  -(9999 : Rat) / 100 ≤ a.temp ∧ a.temp ≤ (99999 : Rat) / 100 ∧
  -- text attributes are single-line
  '\n' ∉ a.name ∧ '\n' ∉ a.altLoc ∧ '\n' ∉ a.resName ∧ '\n' ∉ a.chainID ∧ '\n' ∉ a.iCode ∧ '\n' ∉ a.element

/-- the coordinate range in which a coordinate can be written at all -/
def CoordInRange (x : Rat) : Prop := -(19999999 : Rat) / 2 < x ∧ x < (199999999 : Rat) / 2

end Spec
