import PdbVerif.Driver.MainSpecOnly
def main : IO Unit := Driver.mainSpec
