import PdbVerif.Driver.SpecOps
open Lean Driver in
def main : IO Unit := do
  loop (fun j => do
    let op ← jStr j "op"
    match ← specOp op j with
    | none => .error s!"unknown op {op}"
    | some s => pure (Json.mkObj [("spec", s)])) (← IO.getStdin) (← IO.getStdout)
