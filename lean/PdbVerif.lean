import PdbVerif.Py.Str
import PdbVerif.Py.Num
