import warnings, random, math, os, tempfile
warnings.simplefilter('ignore')
import numpy as np
from pdb2sql import StructureSimilarity
def atom(serial,name,resName,chain,resSeq,x,y,z,alt=' ',icode=' ',occ=1.0,temp=0.0,elem=' C'):
    nm = name if len(name)==4 else (' %-3s'%name)
    return "ATOM  %5d %-4s%1s%3s %1s%4d%1s   %8.3f%8.3f%8.3f%6.2f%6.2f          %2s  " % (serial,nm,alt,resName,chain,resSeq,icode,x,y,z,occ,temp,elem)
os.chdir(tempfile.mkdtemp())
R=random.Random(5)
def helix(n,off,seed):
    r=random.Random(seed); pts=[]
    for i in range(n):
        t=i*1.7; base=np.array([2.3*math.cos(t)+off[0],2.3*math.sin(t)+off[1],1.5*i+off[2]])
        pts.append(base)
    return pts
def mkref(nA,nB,sA,sB,seed):
    r=random.Random(seed); rows=[]
    for ch,n,s,off in (('A',nA,sA,(0,0,0)),('B',nB,sB,(7.0,1.0,2.0))):
        for i,b in enumerate(helix(n,off,seed)):
            names=['N','CA','C','O']+r.sample(['CB','CG','OG','HA','H'],r.randint(0,3))
            for nm in names:
                rows.append([ch,'ALA',s+i,nm,b+np.array([r.uniform(-1.2,1.2) for _ in range(3)])])
    return rows
def kabsch_min_rmsd(P,Q):
    P=P-P.mean(0);Q=Q-Q.mean(0); A=P.T@Q; V,S,Wt=np.linalg.svd(A); d=np.sign(np.linalg.det(V@Wt)); 
    E0=(P**2).sum()+(Q**2).sum(); return math.sqrt(max(0,(E0-2*(S[0]+S[1]+d*S[2]))/len(P)))
def write(name,rows): open(name,'w').write('\n'.join(atom(i+1,r[3],r[1],r[0],r[2],*np.round(r[4],3)) for i,r in enumerate(rows))+'\n')
BB=('CA','C','N','O')
def oracle_irmsd(dec,ref,cut):
    zone=set()
    for a in ref:
        for b in ref:
            if a[0]!=b[0] and np.linalg.norm(np.round(a[4],3)-np.round(b[4],3))<=cut: zone.add((a[0],a[2]))
    kd={(r[0],r[2],r[3]):np.round(r[4],3) for r in dec}; kr={(r[0],r[2],r[3]):np.round(r[4],3) for r in ref}
    keys=sorted(k for k in kr if k in kd and k[2] in BB and (k[0],k[1]) in zone)
    return kabsch_min_rmsd(np.array([kd[k] for k in keys]),np.array([kr[k] for k in keys]))
def oracle_lrmsd(dec,ref,longc):
    kd={(r[0],r[2],r[3]):np.round(r[4],3) for r in dec}; kr={(r[0],r[2],r[3]):np.round(r[4],3) for r in ref}
    kl=sorted(k for k in kr if k in kd and k[2] in BB and k[0]==longc); ks=sorted(k for k in kr if k in kd and k[2] in BB and k[0]!=longc)
    P=np.array([kd[k] for k in kl]);Q=np.array([kr[k] for k in kl]); pm,qm=P.mean(0),Q.mean(0)
    A=(P-pm).T@(Q-qm); V,S,Wt=np.linalg.svd(A); d=np.sign(np.linalg.det(V@Wt)); U=Wt.T@np.diag([1,1,d])@V.T
    Ps=np.array([kd[k] for k in ks]);Qs=np.array([kr[k] for k in ks])
    return math.sqrt((((U@(Ps-pm).T).T+qm-Qs)**2).sum()/len(Ps))

def respairs(rows,cut):
    P=set()
    for a in rows:
        if a[0]!='A' or a[3][0]=='H': continue
        for b in rows:
            if b[0]!='B' or b[3][0]=='H': continue
            if np.linalg.norm(np.round(a[4],3)-np.round(b[4],3))<=cut: P.add(((a[0],a[2],a[1]),(b[0],b[2],b[1])))
    return P
bad=0
for it in range(80):
    nA=R.randint(4,8); nB=R.randint(3,7); ref=mkref(nA,nB,R.randint(-3,5),R.randint(-3,40),it)
    dec=[[r[0],r[1],r[2],r[3],r[4]+np.array([R.gauss(0,0.9) for _ in range(3)])] for r in ref]
    mode=it%4
    if mode==1: dec=[r for r in dec if not (r[3] in ('CB','OG') and R.random()<0.3)]
    if mode in (2,3):
        ch='AB'[mode-2]; rs=R.choice([r[2] for r in dec if r[0]==ch]); dec=[r for r in dec if not (r[0]==ch and r[2]==rs)]
    write('ref.pdb',ref); write('dec.pdb',dec)
    S=StructureSimilarity('dec.pdb','ref.pdb',enforce_residue_matching=False)
    cut=R.choice([4,5,6.5])
    pr=respairs(ref,cut); pd_=respairs(dec,cut)
    if not pr: continue
    o=round(len(pr&pd_)/len(pr),6)
    res={}
    for nm,f in (('ff',lambda:S.compute_fnat_fast(cutoff=cut)),('fs',lambda:S.compute_fnat_pdb2sql(cutoff=cut))):
        try: res[nm]=float(f())
        except Exception as e: res[nm]='EXC '+type(e).__name__+' '+str(e)[:40]
    ncl=sum(1 for a in dec for b in dec if a[0]=='A' and b[0]=='B' and a[3][0]!='H' and b[3][0]!='H' and np.linalg.norm(np.round(a[4],3)-np.round(b[4],3))<=3.0)
    cl=StructureSimilarity.compute_clashes('dec.pdb')
    if res['ff']!=o or res['fs']!=o or cl!=ncl: bad+=1; print(it,'mode',mode,'oracle',o,res,'clash',ncl,cl)
print('bad',bad)
