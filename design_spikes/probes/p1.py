import warnings, sys, os
warnings.simplefilter('ignore')
import numpy as np
from pdb2sql import pdb2sql, interface, many2sql, StructureSimilarity
from pdb2sql.pdb2sql_base import pdb2sql_base

def atom(serial,name,resName,chain,resSeq,x,y,z,alt=' ',icode=' ',occ=1.0,temp=0.0,elem=' C'):
    return "ATOM  %5d %-4s%1s%3s %1s%4d%1s   %8.3f%8.3f%8.3f%6.2f%6.2f          %2s  " % (serial,name,alt,resName,chain,resSeq,icode,x,y,z,occ,temp,elem)

# C05 allchains pair map overwrite
L=[atom(1,' CA ','ALA','A',1,0,0,0), atom(2,' CA ','ALA','B',1,1,0,0), atom(3,' CA ','ALA','C',1,0,1,0), atom(4,' CA ','ALA','A',2,50,0,0),atom(5,' CA ','ALA','B',2,51,0,0)]
db=interface(L)
print('C05 allchains pairs', db.get_contact_atoms(cutoff=3, allchains=True, return_contact_pairs=True))
print('C05 allchains atoms', db.get_contact_atoms(cutoff=3, allchains=True))
# chain missing contact
print('C05 AB', db.get_contact_atoms(cutoff=3, chain1='A',chain2='B', return_contact_pairs=True), db.get_contact_atoms(cutoff=3, chain1='B',chain2='A', return_contact_pairs=True))
