import warnings, sys, os, random, tempfile
warnings.simplefilter('ignore')
import numpy as np
from pdb2sql import pdb2sql, interface, many2sql, StructureSimilarity, align, align_interface, superpose, transform
from pdb2sql.superpose import get_rotation_matrix
def atom(serial,name,resName,chain,resSeq,x,y,z,alt=' ',icode=' ',occ=1.0,temp=0.0,elem=' C'):
    return "ATOM  %5d %-4s%1s%3s %1s%4d%1s   %8.3f%8.3f%8.3f%6.2f%6.2f          %2s  " % (serial%100000,name,alt,resName,chain,resSeq,icode,x,y,z,occ,temp,elem)
os.chdir(tempfile.mkdtemp())
r=random.Random(5)
pts=[(r.gauss(0,10),r.gauss(0,3),r.gauss(0,1)) for _ in range(40)]
# rotate to generic orientation
ax,ang=transform.get_rot_axis_angle(seed=3)
P=transform.rot_xyz_around_axis(np.array(pts),ax,ang)
L=[atom(i+1,' CA ','ALA','A',i+1,*p) for i,p in enumerate(P)]
def principal(db):
    X=np.array(db.get('x,y,z')); X=X-X.mean(0); w,v=np.linalg.eigh(np.cov(X.T)); return v[:,-1], v[:,0]
for axis in 'xyz':
    try:
        db=align(L,axis=axis,export=False)
        print('align',axis,'max pc', np.round(principal(db)[0],3))
    except Exception as e: print('align',axis,type(e).__name__,e)
from pdb2sql.align import pca
print('pca dtype', pca(np.array(P))[0].dtype, pca(np.array(P))[1].dtype)
# test on 1AK4
try:
    db=align('/repo/test/pdb/1AK4/1AK4_10w.pdb',axis='y',export=False); print('1AK4 y', np.round(principal(db)[0],3))
except Exception as e: print('1AK4',type(e).__name__,e)
# superpose equal-size but different atoms
tgt=[atom(i+1,' CA ','ALA','A',i+1,*p) for i,p in enumerate(pts[:10])]
mob_pts=transform.rot_xyz_around_axis(np.array(pts[:11]),ax,ang)+np.array([5,6,7])
mob=[atom(i+1,' CA ','ALA','A',i+1,*p) for i,p in enumerate(mob_pts)]
# delete res 1 from target's view: target has residues 1..10, mobile has 2..11 => same size
mob2=mob[1:11]
dm=pdb2sql(mob2); dt=pdb2sql(tgt)
superpose(dm,dt,export=False,only_backbone=True)
X=np.array(dm.get('x,y,z',resSeq=list(range(2,11)))); Y=np.array(dt.get('x,y,z',resSeq=list(range(2,11))))
print('superpose same-size mismatch: rmsd over shared', np.sqrt(((X-Y)**2).sum(1).mean()))
dm=pdb2sql(mob); dt=pdb2sql(tgt)
superpose(dm,dt,export=False,only_backbone=True)
X=np.array(dm.get('x,y,z',resSeq=list(range(1,11)))); Y=np.array(dt.get('x,y,z',resSeq=list(range(1,11))))
print('superpose diff-size: rmsd over shared', np.sqrt(((X-Y)**2).sum(1).mean()))
print(sorted(os.listdir('.')))
# Kabsch degenerate: reflection
Pm=np.array(pts[:6]); Pm-=Pm.mean(0); Qm=Pm*np.array([1,1,-1])
for m in ('svd','quaternion'):
    U=get_rotation_matrix(Pm,Qm,method=m); print(m,'det',round(np.linalg.det(U),6),'orth',np.abs(U@U.T-np.eye(3)).max(), 'rms', np.sqrt((( (U@Pm.T).T-Qm)**2).sum(1).mean()))
# single point
P1=np.zeros((1,3)); 
for m in ('svd','quaternion'):
    U=get_rotation_matrix(P1,P1,method=m); print(m,'single', np.round(U,3).tolist(), np.linalg.det(U))
# collinear
Pc=np.array([[t,0,0] for t in (-2,-1,0,1,2.)]); Qc=np.array([[0,t,0] for t in (-2,-1,0,1,2.)])
for m in ('svd','quaternion'):
    U=get_rotation_matrix(Pc,Qc,method=m); print(m,'collinear det',np.linalg.det(U),'rms',np.sqrt((( (U@Pc.T).T-Qc)**2).sum(1).mean()), U.dtype)
