import warnings, random, itertools, math, sys
warnings.simplefilter('ignore')
import numpy as np
from pdb2sql import pdb2sql, interface
def atom(serial,name,resName,chain,resSeq,x,y,z,alt=' ',icode=' ',occ=1.0,temp=0.0,elem=' C'):
    nm = name if len(name)==4 else (' %-3s'%name)
    return "ATOM  %5d %-4s%1s%3s %1s%4d%1s   %8.3f%8.3f%8.3f%6.2f%6.2f          %2s  " % (serial,nm,alt,resName,chain,resSeq,icode,x,y,z,occ,temp,elem)
R=random.Random(7)
NAMES=['N','CA','C','O','CB','H','HA','1HB','OG']
def mk(nch, maxat):
    L=[];s=1;rows=[]
    for ci in range(nch):
        ch='ABCDE'[ci]
        for k in range(R.randint(1,maxat)):
            nm=R.choice(NAMES); rs=R.randint(-2,3); rn=R.choice(['ALA','GLY'])
            x,y,z=[R.randint(-8,8)*0.25+ci*1.0 for _ in range(3)]
            L.append(atom(s,nm,rn,ch,rs,x,y,z)); rows.append((ch,rn,rs,nm,(x,y,z))); s+=1
    return L,rows
BB=['CA','C','N','O']
def oracle(rows,c1,c2,cut,bb,noH):
    def ok(r): return (not bb or r[3] in BB) and not (noH and r[3][0]=='H')
    pairs={}
    for i,a in enumerate(rows):
        if a[0]!=c1 or not ok(a): continue
        p=[j for j,b in enumerate(rows) if b[0]==c2 and ok(b) and sum((u-v)**2 for u,v in zip(a[4],b[4]))<=cut*cut]
        if p: pairs[i]=p
    return pairs
bad=0;n=0
for it in range(400):
    nch=R.randint(2,4); L,rows=mk(nch,6); db=interface(L); chains=sorted(set(r[0] for r in rows))
    for cut in (1.25,2.0,3.0):
      for bb in (False,True):
        for noH in (False,True):
          for c1,c2 in itertools.permutations(chains,2):
            n+=1
            exp=oracle(rows,c1,c2,cut,bb,noH)
            got=db.get_contact_atoms(cutoff=cut,chain1=c1,chain2=c2,only_backbone_atoms=bb,excludeH=noH,return_contact_pairs=True)
            got={int(k):[int(v) for v in vs] for k,vs in got.items()}
            ga=db.get_contact_atoms(cutoff=cut,chain1=c1,chain2=c2,only_backbone_atoms=bb,excludeH=noH)
            ga={k:[int(v) for v in vs] for k,vs in ga.items()}
            ea={c1:sorted(exp), c2:sorted(set(j for v in exp.values() for j in v))}
            if got!=exp or ga!=ea:
                bad+=1
                if bad<4: print('MISMATCH',c1,c2,cut,bb,noH,'\n exp',exp,ea,'\n got',got,ga)
            # residues + extension
            gr=db.get_contact_residues(cutoff=cut,chain1=c1,chain2=c2,only_backbone_atoms=bb,excludeH=noH)
            er={c:sorted(set((rows[i][0],rows[i][2],rows[i][1]) for i in ea[c])) for c in ea}
            gr={c:[tuple(t) for t in v] for c,v in gr.items()}
            if gr!=er:
                bad+=1
                if bad<4: print('RES MISMATCH',gr,er)
            ge=db.get_contact_atoms(cutoff=cut,chain1=c1,chain2=c2,only_backbone_atoms=bb,excludeH=noH,extend_to_residue=True)
            ee={}
            for c in ea:
                keys=set((rows[i][0],rows[i][1],rows[i][2]) for i in ea[c])
                ee[c]=[i for i,r in enumerate(rows) if (r[0],r[1],r[2]) in keys and (not bb or r[3] in BB)]
            ge={c:[int(v) for v in vs] for c,vs in ge.items()}
            if ge!=ee:
                bad+=1
                if bad<6: print('EXT MISMATCH',c1,c2,cut,bb,noH,ge,ee)
print('cases',n,'bad',bad)
