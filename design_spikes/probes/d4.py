import warnings, random, math, os, tempfile
warnings.simplefilter('ignore')
import numpy as np
from pdb2sql import StructureSimilarity
def atom(serial,name,resName,chain,resSeq,x,y,z,alt=' ',icode=' ',occ=1.0,temp=0.0,elem=' C'):
    nm = name if len(name)==4 else (' %-3s'%name)
    return "ATOM  %5d %-4s%1s%3s %1s%4d%1s   %8.3f%8.3f%8.3f%6.2f%6.2f          %2s  " % (serial,nm,alt,resName,chain,resSeq,icode,x,y,z,occ,temp,elem)
os.chdir(tempfile.mkdtemp())
R=random.Random(5)
def helix(n,off,seed):
    r=random.Random(seed); pts=[]
    for i in range(n):
        t=i*1.7; base=np.array([2.3*math.cos(t)+off[0],2.3*math.sin(t)+off[1],1.5*i+off[2]])
        pts.append(base)
    return pts
def mkref(nA,nB,sA,sB,seed):
    r=random.Random(seed); rows=[]
    for ch,n,s,off in (('A',nA,sA,(0,0,0)),('B',nB,sB,(7.0,1.0,2.0))):
        for i,b in enumerate(helix(n,off,seed)):
            names=['N','CA','C','O']+r.sample(['CB','CG','OG','HA','H'],r.randint(0,3))
            for nm in names:
                rows.append([ch,'ALA',s+i,nm,b+np.array([r.uniform(-1.2,1.2) for _ in range(3)])])
    return rows
def kabsch_min_rmsd(P,Q):
    P=P-P.mean(0);Q=Q-Q.mean(0); A=P.T@Q; V,S,Wt=np.linalg.svd(A); d=np.sign(np.linalg.det(V@Wt)); 
    E0=(P**2).sum()+(Q**2).sum(); return math.sqrt(max(0,(E0-2*(S[0]+S[1]+d*S[2]))/len(P)))
def write(name,rows): open(name,'w').write('\n'.join(atom(i+1,r[3],r[1],r[0],r[2],*np.round(r[4],3)) for i,r in enumerate(rows))+'\n')
BB=('CA','C','N','O')
def oracle_irmsd(dec,ref,cut):
    zone=set()
    for a in ref:
        for b in ref:
            if a[0]!=b[0] and np.linalg.norm(np.round(a[4],3)-np.round(b[4],3))<=cut: zone.add((a[0],a[2]))
    kd={(r[0],r[2],r[3]):np.round(r[4],3) for r in dec}; kr={(r[0],r[2],r[3]):np.round(r[4],3) for r in ref}
    keys=sorted(k for k in kr if k in kd and k[2] in BB and (k[0],k[1]) in zone)
    return kabsch_min_rmsd(np.array([kd[k] for k in keys]),np.array([kr[k] for k in keys]))
def oracle_lrmsd(dec,ref,longc):
    kd={(r[0],r[2],r[3]):np.round(r[4],3) for r in dec}; kr={(r[0],r[2],r[3]):np.round(r[4],3) for r in ref}
    kl=sorted(k for k in kr if k in kd and k[2] in BB and k[0]==longc); ks=sorted(k for k in kr if k in kd and k[2] in BB and k[0]!=longc)
    P=np.array([kd[k] for k in kl]);Q=np.array([kr[k] for k in kl]); pm,qm=P.mean(0),Q.mean(0)
    A=(P-pm).T@(Q-qm); V,S,Wt=np.linalg.svd(A); d=np.sign(np.linalg.det(V@Wt)); U=Wt.T@np.diag([1,1,d])@V.T
    Ps=np.array([kd[k] for k in ks]);Qs=np.array([kr[k] for k in ks])
    return math.sqrt((((U@(Ps-pm).T).T+qm-Qs)**2).sum()/len(Ps))
bad=0
for it in range(60):
    nA=R.randint(5,9); nB=R.randint(3,nA-1); ref=mkref(nA,nB,R.randint(-3,5),R.randint(-3,40),it)
    # decoy: deform + rigid move + delete some atoms/residues
    ang=R.uniform(0,6); ax=np.array([R.gauss(0,1) for _ in range(3)]); ax/=np.linalg.norm(ax)
    K=np.array([[0,-ax[2],ax[1]],[ax[2],0,-ax[0]],[-ax[1],ax[0],0]]); M=np.eye(3)+math.sin(ang)*K+(1-math.cos(ang))*K@K; t=np.array([R.uniform(-20,20) for _ in range(3)])
    dec=[[r[0],r[1],r[2],r[3],M@(r[4]+np.array([R.gauss(0,0.6) for _ in range(3)]))+t] for r in ref]
    mode=it%3
    if mode==1: dec=[r for r in dec if not (r[3]=='O' and R.random()<0.2)]
    if mode==2:
        dropres=(R.choice('AB'),); rs=R.choice([r[2] for r in dec if r[0]==dropres[0]]); dec=[r for r in dec if not (r[0]==dropres[0] and r[2]==rs)]
    write('ref.pdb',ref); write('dec.pdb',dec)
    S=StructureSimilarity('dec.pdb','ref.pdb',enforce_residue_matching=False)
    cut=R.choice([6,8,10])
    oi=round(oracle_irmsd(dec,ref,cut),3); ol=round(oracle_lrmsd(dec,ref,'A'),3)
    res={}
    for nm,f in (('if',lambda:S.compute_irmsd_fast(cutoff=cut)),('is',lambda:S.compute_irmsd_pdb2sql(cutoff=cut)),('ifq',lambda:S.compute_irmsd_fast(cutoff=cut,method='quaternion')),('lf',lambda:S.compute_lrmsd_fast()),('ls',lambda:S.compute_lrmsd_pdb2sql()),('lsq',lambda:S.compute_lrmsd_pdb2sql(method='quaternion'))):
        try: res[nm]=float(f())
        except Exception as e: res[nm]='EXC '+type(e).__name__+' '+str(e)[:40]
    ok=all(isinstance(res[k],float) and abs(res[k]-oi)<=0.0015 for k in ('if','is','ifq')) and all(isinstance(res[k],float) and abs(res[k]-ol)<=0.0015 for k in ('lf','ls','lsq'))
    if not ok: bad+=1; print(it,'mode',mode,'cut',cut,'oracle',oi,ol,res)
print('bad',bad)
