import warnings, random, itertools
warnings.simplefilter('ignore')
import numpy as np
from pdb2sql import pdb2sql
def atom(serial,name,resName,chain,resSeq,x,y,z,alt=' ',icode=' ',occ=1.0,temp=0.0,elem=' C'):
    nm = name if len(name)==4 else (' %-3s'%name)
    return "ATOM  %5d %-4s%1s%3s %1s%4d%1s   %8.3f%8.3f%8.3f%6.2f%6.2f          %2s  " % (serial,nm,alt,resName,chain,resSeq,icode,x,y,z,occ,temp,elem)
R=random.Random(11)
COLS=['serial','name','altLoc','resName','chainID','resSeq','iCode','x','y','z','occ','temp','element','model']
POOL={'serial':[1,2,3,7],'name':['CA','N','1HB','X'],'altLoc':['','A','B'],'resName':['ALA','GLY','ZZZ'],'chainID':['A','B','1','Q'],'resSeq':[-1,0,1,2,9],'iCode':['','C'],
      'x':[0.0,1.5,-2.25,99.0],'y':[0.0,1.5],'z':[0.0],'occ':[1.0,0.5],'temp':[0.0,10.0],'element':['C','N'],'model':[0,1],'rowID':[0,1,2,5,50]}
def mk(n):
    L=[];rows=[]
    for i in range(n):
        r=dict(serial=R.choice(POOL['serial']),name=R.choice(POOL['name'][:3]),altLoc=R.choice(POOL['altLoc']),resName=R.choice(POOL['resName'][:2]),chainID=R.choice(POOL['chainID'][:3]),
               resSeq=R.choice(POOL['resSeq'][:4]),iCode=R.choice(POOL['iCode']),x=R.choice(POOL['x'][:3]),y=R.choice(POOL['y']),z=0.0,occ=R.choice(POOL['occ']),temp=R.choice(POOL['temp']),element=R.choice(POOL['element']),model=0)
        L.append(atom(r['serial'],r['name'],r['resName'],r['chainID'],r['resSeq'],r['x'],r['y'],r['z'],alt=r['altLoc'] or ' ',icode=r['iCode'] or ' ',occ=r['occ'],temp=r['temp'],elem='%2s'%r['element']))
        rows.append(r)
    return L,rows
NUM={'serial','resSeq','x','y','z','occ','temp','model','rowID'}
def match(col,a,v):
    if col in NUM:
        if isinstance(v,str):
            try: v=float(v)
            except: return False
        return float(a)==float(v)
    else:
        if not isinstance(v,str):
            v = str(v) if isinstance(v,int) else repr(float(v))
        return a==v
def oracle(rows,cols,conds):
    out=[]
    for i,r in enumerate(rows):
        rr=dict(r,rowID=i); ok=True
        for k,v in conds.items():
            neg=k.startswith('no_'); kk=k[3:] if neg else k
            vs=v if isinstance(v,list) else [v]
            m=any(match(kk,rr[kk],x) for x in vs)
            if m==neg: ok=False;break
        if ok: out.append([rr[c] for c in cols])
    if out and len(cols)==1: out=[o[0] for o in out]
    return out
bad=0;n=0
for it in range(1500):
    L,rows=mk(R.randint(1,12)); 
    if not L: continue
    db=pdb2sql(L)
    for q in range(12):
        nc=R.randint(0,3); keys=R.sample(list(POOL),nc); conds={}
        for k in keys:
            vs=R.sample(POOL[k],R.randint(1,len(POOL[k])))
            if R.random()<0.2 and k in NUM and k!='rowID': vs=[str(x) for x in vs]
            v = vs[0] if R.random()<0.3 else vs
            conds[('no_' if R.random()<0.35 else '')+k]=v
        cols=R.sample(COLS+['rowID'],R.randint(1,4))
        n+=1
        exp=oracle(rows,cols,conds)
        try: got=db.get(','.join(cols),**conds)
        except Exception as e: got='EXC '+type(e).__name__+str(e)[:50]
        if got!=exp:
            bad+=1
            if bad<6: print('MISMATCH',cols,conds,'\n exp',exp,'\n got',got)
print('cases',n,'bad',bad)
