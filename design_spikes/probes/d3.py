import warnings, random, math
warnings.simplefilter('ignore')
import numpy as np
from pdb2sql import pdb2sql, transform, many2sql, interface
def atom(serial,name,resName,chain,resSeq,x,y,z,alt=' ',icode=' ',occ=1.0,temp=0.0,elem=' C'):
    nm = name if len(name)==4 else (' %-3s'%name)
    return "ATOM  %5d %-4s%1s%3s %1s%4d%1s   %8.3f%8.3f%8.3f%6.2f%6.2f          %2s  " % (serial,nm,alt,resName,chain,resSeq,icode,x,y,z,occ,temp,elem)
R=random.Random(3)
L=[atom(i+1,'CA','ALA','AB'[i%2],i+1,R.uniform(-5,5),R.uniform(-5,5),R.uniform(-5,5)) for i in range(8)]
def rodrigues(u,a):
    u=np.array(u,float); K=np.array([[0,-u[2],u[1]],[u[2],0,-u[0]],[-u[1],u[0],0]]); return np.eye(3)+math.sin(a)*K+(1-math.cos(a))*K@K
bad=0
for it in range(300):
    db=pdb2sql(L); before=db.get('*'); 
    u=np.array([R.gauss(0,1) for _ in range(3)]); u/=np.linalg.norm(u); a=R.uniform(-4*math.pi,4*math.pi)
    sel=R.choice([{}, {'chainID':'A'}, {'rowID':[2]}, {'no_chainID':'A'}])
    X=np.array(db.get('x,y,z',**sel)); c=X.mean(0)
    transform.rot_axis(db,u,a,**sel)
    exp=(rodrigues(u,a)@(X-c).T).T+c
    got=np.array(db.get('x,y,z',**sel))
    after=db.get('*')
    ids=set(db.get('rowID',**sel))
    frame=all(after[i]==before[i] for i in range(len(before)) if i not in ids) and all(after[i][:7]==before[i][:7] and after[i][10:]==before[i][10:] for i in ids)
    if np.abs(exp-got).max()>1e-9 or not frame: bad+=1; print('rot_axis mismatch',sel)
    # euler
    db=pdb2sql(L); al,be,ga=[R.uniform(-3,3) for _ in range(3)]
    X=np.array(db.get('x,y,z')); c=X.mean(0)
    transform.rot_euler(db,al,be,ga)
    M=rodrigues([0,0,1],ga)@rodrigues([0,1,0],be)@rodrigues([1,0,0],al)
    if np.abs((M@(X-c).T).T+c-np.array(db.get('x,y,z'))).max()>1e-9: bad+=1; print('euler mismatch')
print('C10 bad',bad)
for s in (1,2,3):
    ax,an=transform.get_rot_axis_angle(s); ax2,an2=transform.get_rot_axis_angle(s)
    assert ax==ax2 and an==an2 and abs(np.linalg.norm(ax)-1)<1e-12 and 0<=an<2*math.pi
print('seed ok')
# C15 independence after interface()/many2sql
db=pdb2sql(L); db.update('x',[[7.0]],rowID=[0]); itf=interface(db); m=many2sql([db,db(chainID='A')])
snap_i=itf.get('*'); snap_m=m.get_all('*'); snap_d=db.get('*')
db.update('y',[[9.0]],rowID=[1]); itf.update('z',[[5.0]],rowID=[2]); m.update('x',[[1.0]],rowID=[3])
print('C15', itf.get('*')[1]==snap_i[1], db.get('*')[2]==snap_d[2], db.get('*')[3]==snap_d[3], m.get_all('*')[0][1]==snap_m[0][1], snap_i[0][7], [r[7] for r in snap_m[0]][:2])
