import warnings, sys, os
warnings.simplefilter('ignore')
import numpy as np
from pdb2sql import pdb2sql, interface, many2sql, StructureSimilarity
def atom(serial,name,resName,chain,resSeq,x,y,z,alt=' ',icode=' ',occ=1.0,temp=0.0,elem=' C'):
    return "ATOM  %5d %-4s%1s%3s %1s%4d%1s   %8.3f%8.3f%8.3f%6.2f%6.2f          %2s  " % (serial%100000,name,alt,resName,chain,resSeq%10000,icode,x,y,z,occ,temp,elem)
N=2500
L=[atom(i,' CA ','ALA','AB'[i%2],i,i*0.001,0,0) for i in range(N)]
db=pdb2sql(L)
# positive long list
ids=list(range(0,N,2))
r=db.get('rowID', rowID=ids)
print('long pos ok', r==ids, len(r))
# interleaved order: serial values list order reversed
ids2=list(range(N-1,-1,-1))
r=db.get('rowID', rowID=ids2)
print('reversed list: in table order?', r==sorted(r), r[:3], r[-3:])
# duplicates across chunks
ids3=list(range(1000))+[0,1,2]
r=db.get('rowID', rowID=ids3)
print('dups across chunks: len', len(r), 'unique', len(set(r)))
# negated long
sys.setrecursionlimit(200)
try:
    r=db.get('rowID', no_rowID=ids)
    print('neg long', len(r))
except RecursionError as e:
    print('neg long: RecursionError')
except Exception as e:
    print('neg long exc', type(e), e)
# many2sql table
L2=[atom(i,' CB ','GLY','AB'[i%2],i,i*0.001,1,1) for i in range(N)]
m=many2sql([L,L2])
print(m._get_table_names())
r=m.get('name', tablename='ATOM1', rowID=list(range(1000)))
print('table ATOM1 long list names', set(r))
r=m.get('name', tablename='ATOM1', rowID=list(range(10)))
print('table ATOM1 short list names', set(r))
# two long-ish conditions together
try:
    r=db.get('rowID', rowID=list(range(600)), resSeq=list(range(600)))
    print(len(r))
except ValueError as e: print('ValueError', e)
# update with tablename
m.update('x', [[9.0]], tablename='ATOM1', rowID=[0])
print('update table', m.get('x', rowID=[0]), m.get('x', tablename='ATOM1', rowID=[0]))
# scalars non-list: tuple / ndarray value?
try:
    print('ndarray cond', db.get('rowID', rowID=np.array([1,2])))
except Exception as e: print('ndarray cond exc', type(e).__name__, e)
try:
    print('tuple cond', db.get('rowID', resSeq=(1,2)))
except Exception as e: print('tuple cond exc', type(e).__name__, e)
print('str num', db.get('rowID', resSeq='5'), db.get('rowID', x='0.005'), db.get('rowID', x=0.005))
pass
try: print(db.get('rowIDx'))
except Exception as e: print(type(e).__name__)
try: print(db.get('x', foo=1))
except Exception as e: print(type(e).__name__)
print(db.get('x', rowID=[]))
print(db.get('rowID', no_rowID=[]) [:3])
print(db.get_colnames())
