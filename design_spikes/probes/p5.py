import warnings, sys, os, random, tempfile, sqlite3
warnings.simplefilter('ignore')
import numpy as np
from pdb2sql import pdb2sql
from pdb2sql.pdb2sql_base import pdb2sql_base as B
def atom(serial,name,resName,chain,resSeq,x,y,z,alt=' ',icode=' ',occ=1.0,temp=0.0,elem=' C'):
    return "ATOM  %5d %-4s%1s%3s %1s%4d%1s   %8.3f%8.3f%8.3f%6.2f%6.2f          %2s  " % (serial%100000,name,alt,resName,chain,resSeq,icode,x,y,z,occ,temp,elem)
d=tempfile.mkdtemp(); os.chdir(d)
L=[atom(i+1,' CA ','ALA','A',i+1,i,0,0) for i in range(5)]
open('victim','w').write('x')
for nm in ('plain.db','with space.db','a;touch pwned.db','-rf.db',"q'uote.db",'victim x.db'):
    try:
        open(nm,'w').write('junk')  # pre-existing
        db=pdb2sql(L,sqlfile=nm); db._close(rmdb=False)
        c=sqlite3.connect(nm); n=c.execute('select count(*) from ATOM').fetchone(); c.close()
        print(repr(nm),'keep ok rows',n)
        db=pdb2sql(L,sqlfile=nm); db._close(rmdb=True); print('   removed?', not os.path.exists(nm))
    except Exception as e: print(repr(nm),type(e).__name__,e)
print(sorted(os.listdir('.')))
# formatting
for v in (999.9995,9999.4996,-999.4996,-999.5,9999.5,99999.5,99999.94,99999.96,999999.5,-9999.5,-99999.5,1e8-0.5,-1e7+0.5,-0.0,-0.0004,0.0005,1.0005,2.0015, 99999999.4, 9999.4999999):
    try: s=B._format_xyz(v); print(v,repr(s),len(s))
    except Exception as e: print(v,type(e).__name__)
# parse edge cases
tests={'serial5':atom(99999,' CA ','ALA','A',1,0,0,0),
 'altloc':atom(1,' CA ','ALA','A',1,0,0,0,alt='B',icode='C'),
 'hetatm':'HETATM'+atom(1,' CA ','ALA','A',1,0,0,0)[6:],
 'short':atom(1,' CA ','ALA','A',1,0,0,0)[:54],
 'name4':atom(1,'HD21','ASN','A',1,0,0,0,elem='  '), 'name1left':atom(1,'C   ','ALA','A',1,0,0,0,elem='  '),'digit':atom(1,'1HG ','ALA','A',1,0,0,0,elem='  '),'FE':atom(1,'FE  ','HEM','A',1,0,0,0,elem='  '), 'HE2':atom(1,'HE2 ','HIS','A',1,0,0,0,elem='  '),'HG':atom(1,'HG  ','CYS','A',1,0,0,0,elem='  '),
 'negres':atom(1,' CA ','ALA','A',-999,-999.999,9999.999,0,0),
 'atomprefix':'ATOMS '+atom(1,' CA ','ALA','A',1,0,0,0)[6:],
 'nl':atom(1,' CA ','ALA','A',1,0,0,0)+'\n', 'crlf':atom(1,' CA ','ALA','A',1,0,0,0)+'\r\n',
 'hexserial':atom(1,' CA ','ALA','A',1,0,0,0).replace('    1 ',' 1_0  ',1),
 'nan':atom(1,' CA ','ALA','A',1,0,0,0).replace('   0.000','     nan',1),
 'inf':atom(1,' CA ','ALA','A',1,0,0,0).replace('   0.000','     inf',1),
 'under':atom(1,' CA ','ALA','A',1,0,0,0).replace('   0.000','   1_0.0',1),
 'exp':atom(1,' CA ','ALA','A',1,0,0,0).replace('   0.000','   1e2  ',1),
 'intfloat':atom(1,' CA ','ALA','A',1,0,0,0).replace('   1 ','  1.0',1),
 'segid':atom(1,' CA ','ALA',' ',1,0,0,0)[:72]+'SEGX'+atom(1,' CA ','ALA',' ',1,0,0,0)[76:],
}
for k,l in tests.items():
    try:
        db=pdb2sql([l]); print(k, db.get('*'))
    except Exception as e: print(k,type(e).__name__,str(e)[:60])
