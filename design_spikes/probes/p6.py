import warnings, sys, os, random, tempfile, sqlite3
warnings.simplefilter('ignore')
import numpy as np
from pdb2sql import pdb2sql, interface, many2sql, transform
def atom(serial,name,resName,chain,resSeq,x,y,z,alt=' ',icode=' ',occ=1.0,temp=0.0,elem=' C'):
    return "ATOM  %5d %-4s%1s%3s %1s%4d%1s   %8.3f%8.3f%8.3f%6.2f%6.2f          %2s  " % (serial%100000,name,alt,resName,chain,resSeq,icode,x,y,z,occ,temp,elem)
L=[atom(i+1,' CA ','ALA','AB'[i%2],i+1,i,0.5*i,0) for i in range(6)]
db=pdb2sql(L)
def T(tag,f):
    try: r=f(); print(tag,'->',r)
    except Exception as e: print(tag,'EXC',type(e).__name__,str(e)[:80])
T('int64 arr', lambda:(db.update('resSeq',np.array([[7],[8],[9]]),chainID='A'), db.get('resSeq'))[1])
T('int32 arr', lambda:(db.update('resSeq',np.array([[7],[8],[9]],dtype=np.int32),chainID='A'), db.get('resSeq'))[1])
T('f32 arr', lambda:(db.update('x',np.array([[7.5],[8.25],[9.125]],dtype=np.float32),chainID='A'), db.get('x'))[1])
T('np scalar col', lambda:(db.update_column('serial',[np.int64(3)]*6), db.get('serial'))[1])
T('np int array col', lambda:(db.update_column('serial',np.arange(6)), db.get('serial'))[1])
T('str arr', lambda:(db.update('name',np.array([['N'],['C'],['O']]),chainID='A'), db.get('name'))[1])
T('typeof', lambda: [type(v).__name__ for v in db.get('serial')+db.get('resSeq')])
T('int into REAL', lambda:(db.update('x',[[1],[2],[3]],chainID='A'), db.get('x'))[1])
T('float into INT', lambda:(db.update('resSeq',[[1.5],[2.0],[3]],chainID='A'), db.get('resSeq'))[1])
T('str into INT', lambda:(db.update('resSeq',[['12'],['x'],[3]],chainID='A'), db.get('resSeq'))[1])
T('mismatch rows', lambda:db.update('x',[[1],[2]],chainID='A'))
T('mismatch cols', lambda:db.update('x,y',[[1],[2],[3]],chainID='A'))
T('empty values', lambda:db.update('x',[],chainID='Z'))
T('update_column short', lambda:(db.update_column('occ',[0.5,0.25]), db.get('occ'))[1])
T('update_column index', lambda:(db.update_column('occ',[0.75],index=[5]), db.get('occ'))[1])
T('update_column badname', lambda:db.update_column('foo',[1]))
T('add_column', lambda:(db.add_column('chg','FLOAT',0.5), db.get('chg'), db.get_colnames())[1:])
T('add_column str', lambda:(db.add_column('lab','TEXT','pos'), db.get('lab'))[1])
T('add_column str quoted', lambda:(db.add_column('lab2','TEXT',"'pos'"), db.get('lab2'))[1])
T('update_xyz', lambda:(db.update_xyz(np.zeros((3,3)),chainID='B'), db.get('x,y,z'))[1])
# sub-selection & independence
db=pdb2sql(L); db.update('x',[[1234.56789]],rowID=[0]); sub=db(chainID='A'); T('sub', lambda:sub.get('rowID,serial,x,chainID'))
db.update('x',[[0.]],rowID=[0]); T('sub after src mod', lambda:sub.get('x')); sub.update('y',[[9.]],rowID=[0]); T('src after sub mod', lambda:db.get('y'))
# chain '' round trip
db=pdb2sql(L); db.update('chainID',[['']],rowID=[0]); T('blank chain export', lambda:db.sql2pdb()[0]); T('blank chain reparse', lambda:db(chainID='').get('*'))
# fix_chainID
L2=[atom(i+1,' CA ','ALA','XyX1'[i%4],i+1,i,0,0) for i in range(8)]
T('fix', lambda:pdb2sql(L2,fix_chainID=True).get('chainID'))
# many2sql intersection
A=[atom(i+1,' CA ','ALA','A',i+1,i,0,0) for i in range(5)]
Bm=[atom(i+1,' CA ','ALA','A',5-i,10+i,1,0) for i in range(4)]
m=many2sql([A,Bm]); T('inter', lambda:m.get_intersection('resSeq,x')); T('inter*', lambda:[len(t) for t in m.intersect().get_all('x')]);
T('intersect tables', lambda:(m.intersect()._get_table_names(), m.intersect().get_all('resSeq,x')))
T('call', lambda:m(resSeq=[1,2]).get_all('resSeq,x'))
T('many from db', lambda:many2sql([pdb2sql(A),pdb2sql(Bm)]).get_all('x'))
