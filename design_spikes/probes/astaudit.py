import ast, sys, collections
targets={
 '/repo/pdb2sql/pdb2sql_base.py':['data2pdb','_format_atomname','_format_xyz'],
 '/repo/pdb2sql/pdb2sqlcore.py':['_format_pdb_linelength','_get_chainID','_get_element'],
 '/repo/pdb2sql/StructureSimilarity.py':['compute_CapriClass','compute_DockQScore','get_rmsd','read_zone'],
 '/repo/pdb2sql/transform.py':['rot_xyz_around_axis','rotation_euler','rotate','translation','get_rot_axis_angle'],
 '/repo/pdb2sql/superpose.py':['get_rotation_matrix','get_rotation_matrix_Kabsh','get_rotation_matrix_quaternion','superpose_selection','get_trans_vect'],
 '/repo/pdb2sql/align.py':['_align_along_axis','get_rotation_angle','pca','get_max_pca_vect','get_min_pca_vect'],
}
for f,names in targets.items():
    tree=ast.parse(open(f).read())
    for node in ast.walk(tree):
        if isinstance(node,ast.FunctionDef) and node.name in names:
            kinds=collections.Counter(type(n).__name__ for n in ast.walk(node))
            calls=collections.Counter(ast.unparse(n.func) for n in ast.walk(node) if isinstance(n,ast.Call))
            skip={'Load','Store','Name','Constant','arguments','arg','Expr','FunctionDef'}
            print(f.split('/')[-1],node.name,'\n   nodes:',{k:v for k,v in kinds.items() if k not in skip},'\n   calls:',dict(calls))
