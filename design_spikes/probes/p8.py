import warnings, glob
warnings.simplefilter('ignore')
from pdb2sql import pdb2sql, StructureSimilarity as S
bad=0; tot=0
for f in sorted(glob.glob('/repo/test/pdb/**/*.pdb',recursive=True)+glob.glob('/repo/docs/pdb/*.pdb')+glob.glob('/repo/test/*.pdb')):
    try:
        db=pdb2sql(f)
    except Exception as e:
        print(f,'parse',type(e).__name__); continue
    if db._nModel>0: print(f,'multi-model',db._nModel); continue
    src=[l.rstrip('\n') for l in open(f) if l.startswith('ATOM')]
    out=db.sql2pdb()
    n=0
    for a,b in zip(src,out):
        a=a.ljust(80); tot+=1
        if a[:66]!=b[:66] or (a[76:78].strip() and a[76:78]!=b[76:78]):
            n+=1
            if n<=2: print(f); print('  src',repr(a)); print('  out',repr(b))
    bad+=n
    print(f.split('/')[-1], len(src), 'diff', n)
print('total',tot,'bad',bad)
print(S.compute_DockQScore(1,0,0), S.compute_DockQScore(0,1e9,1e9), S.compute_CapriClass(0.5,1.0,5))
