import sys, os, warnings, tempfile, shutil
warnings.simplefilter('ignore')
ev=[]
ON=[False]
def hook(e,a):
    if ON[0] and e in ('open','os.remove','os.rename','os.system','subprocess.Popen','sqlite3.connect','os.unlink','os.listdir','os.mkdir','shutil.copyfile'):
        s=str(a)[:100]
        if 'site-packages' in s or '/root/.pyenv' in s or '.pyc' in s: return
        ev.append((e,s))
sys.addaudithook(hook)
from pdb2sql import StructureSimilarity, superpose, pdb2sql
d=tempfile.mkdtemp(); os.chdir(d)
shutil.copy('/repo/test/pdb/1AK4/1AK4_5w.pdb','dec.pdb'); shutil.copy('/repo/test/pdb/1AK4/target.pdb','ref.pdb')
S=StructureSimilarity('dec.pdb','ref.pdb',enforce_residue_matching=False)
for nm,f in (('lrmsd_sql',lambda:S.compute_lrmsd_pdb2sql()),('irmsd_fast+izone(write)',lambda:S.compute_irmsd_fast(izone='c.izone')),('irmsd_fast+izone(read)',lambda:S.compute_irmsd_fast(izone='c.izone')),('fnat_fast',lambda:S.compute_fnat_fast()),('superpose',lambda:superpose('dec.pdb','ref.pdb',export=False) and 0)):
    ev.clear(); ON[0]=True; r=f(); ON[0]=False
    print(nm,r); 
    for e in ev: print('   ',e)
print(sorted(os.listdir('.')))
