import warnings, sys, os, random, tempfile
warnings.simplefilter('ignore')
import numpy as np
from pdb2sql import pdb2sql, interface, many2sql, StructureSimilarity
def atom(serial,name,resName,chain,resSeq,x,y,z,alt=' ',icode=' ',occ=1.0,temp=0.0,elem=' C'):
    return "ATOM  %5d %-4s%1s%3s %1s%4d%1s   %8.3f%8.3f%8.3f%6.2f%6.2f          %2s  " % (serial%100000,name,alt,resName,chain,resSeq,icode,x,y,z,occ,temp,elem)
rng=random.Random(1)
def mk(nA,nB,startA=1,startB=1,jit=0.0,seed=1):
    r=random.Random(seed); L=[]; s=1
    for ch,n,st,off in (('A',nA,startA,0.0),('B',nB,startB,4.0)):
        for i in range(n):
            base=(i*3.8, off, 0.0)
            for nm,d in ((' N  ',(0,0,0)),(' CA ',(1.2,0.5,0.1)),(' C  ',(2.3,0.2,0.9)),(' O  ',(2.5,1.0,-0.7)),(' CB ',(1.1,-1.2,0.3))):
                L.append(atom(s,nm,'ALA',ch,st+i,base[0]+d[0]+r.uniform(-jit,jit),base[1]+d[1]+r.uniform(-jit,jit),base[2]+d[2]+r.uniform(-jit,jit))); s+=1
    return L
ref=mk(6,4); dec=mk(6,4,jit=0.8,seed=2)
os.chdir(tempfile.mkdtemp())
def w(name,L): open(name,'w').write('\n'.join(L)+'\n'); return name
rf=w('ref.pdb',ref); df=w('dec.pdb',dec)
S=StructureSimilarity(df,rf,enforce_residue_matching=False)
def allscores(S,tag):
    out={}
    for nm,f in (('irmsd_fast',lambda:S.compute_irmsd_fast()),('irmsd_sql',lambda:S.compute_irmsd_pdb2sql()),('lrmsd_fast',lambda:S.compute_lrmsd_fast()),('lrmsd_sql',lambda:S.compute_lrmsd_pdb2sql()),('fnat_fast',lambda:S.compute_fnat_fast()),('fnat_sql',lambda:S.compute_fnat_pdb2sql())):
        try: out[nm]=f()
        except Exception as e: out[nm]=type(e).__name__+':'+str(e)[:60]
    print(tag,out); return out
allscores(S,'base')
print('files in cwd', sorted(os.listdir('.')))
# missing first-chain interface residue in decoy
dec2=[l for l in dec if not (l[21]=='A' and int(l[22:26])==2)]
S2=StructureSimilarity(w('dec2.pdb',dec2),rf,enforce_residue_matching=False); allscores(S2,'missA2')
dec3=[l for l in dec if not (l[21]=='B' and int(l[22:26])==2)]
S3=StructureSimilarity(w('dec3.pdb',dec3),rf,enforce_residue_matching=False); allscores(S3,'missB2')
# permuted decoy (reverse the residue order within chain A)
A=[l for l in dec if l[21]=='A']; B=[l for l in dec if l[21]=='B']
res={}
for l in A: res.setdefault(int(l[22:26]),[]).append(l)
permA=[l for k in sorted(res,reverse=True) for l in res[k]]
S4=StructureSimilarity(w('dec4.pdb',permA+B),rf,enforce_residue_matching=False); allscores(S4,'perm-res enforce off')
S5=StructureSimilarity('dec4.pdb',rf,enforce_residue_matching=True); allscores(S5,'perm-res enforce on')
# equal-size chains
ref6=mk(5,5); dec6=mk(5,5,jit=0.8,seed=3)
S6=StructureSimilarity(w('dec6.pdb',dec6),w('ref6.pdb',ref6),enforce_residue_matching=False); allscores(S6,'equal chains')
# negative resnums + izone file
ref7=mk(6,4,startA=-3,startB=-1); dec7=mk(6,4,startA=-3,startB=-1,jit=0.8,seed=4)
S7=StructureSimilarity(w('dec7.pdb',dec7),w('ref7.pdb',ref7),enforce_residue_matching=False); allscores(S7,'neg')
for nm,f in (('irmsd_fast izone write',lambda:S7.compute_irmsd_fast(izone='z7.izone')),('irmsd_fast izone read',lambda:S7.compute_irmsd_fast(izone='z7.izone')),('irmsd_sql izone read',lambda:S7.compute_irmsd_pdb2sql(izone='z7.izone')),('lrmsd_fast lzone write',lambda:S7.compute_lrmsd_fast(lzone='z7.lzone')),('lrmsd_fast lzone read',lambda:S7.compute_lrmsd_fast(lzone='z7.lzone'))):
    try: print(nm,f())
    except Exception as e: print(nm,type(e).__name__,str(e)[:80])
print(open('z7.izone').read()[:200])
print('zone in-mem', S7.compute_izone(10,save_file=False), 'read', S7.read_zone('z7.izone'))
print('files in cwd', sorted(os.listdir('.')))
