import Mathlib.Tactic.Linarith
import Mathlib.Tactic.Ring
import Mathlib.Tactic.NormNum
import Mathlib.Algebra.Order.Floor.Ring
import Mathlib.Data.Rat.Floor

namespace F

def digitChar (n : Nat) : Char := Char.ofNat (48 + n % 10)
def decDigits (n : Nat) : List Char :=
  if h : n < 10 then [digitChar n] else decDigits (n / 10) ++ [digitChar (n % 10)]
termination_by n
decreasing_by omega

theorem decDigits_length_le (d : Nat) : ∀ n, n < 10 ^ (d+1) → (decDigits n).length ≤ d + 1 := by
  induction d with
  | zero => intro n h; unfold decDigits; simp at h; simp [h]
  | succ d ih =>
    intro n h
    unfold decDigits
    split
    · simp
    · have : n / 10 < 10 ^ (d+1) := by
        have : 10 ^ (d+1+1) = 10 ^ (d+1) * 10 := by rw [Nat.pow_succ]
        omega
      have := ih _ this
      simp; omega

/-- round half to even on exact rationals (what CPython's float formatting does on the exact binary value) -/
def roundHE (y : ℚ) : ℤ :=
  let f := ⌊y⌋
  let r := y - f
  if r < 1/2 then f else if 1/2 < r then f + 1 else if f % 2 = 0 then f else f + 1

theorem roundHE_le_of_le (y : ℚ) (N : ℤ) (h : y ≤ N) : roundHE y ≤ N := by
  unfold roundHE
  have hf : ⌊y⌋ ≤ N := Int.floor_le_iff.2 (by linarith)
  have hfl : (⌊y⌋ : ℚ) ≤ y := Int.floor_le y
  by_cases heq : ⌊y⌋ = N
  · -- then y = N exactly, remainder 0
    have : y - (⌊y⌋:ℚ) = 0 := by rw [heq]; linarith [hfl, heq ▸ hfl]
    simp only [this]; norm_num; omega
  · have hlt : ⌊y⌋ + 1 ≤ N := by omega
    simp only []
    split
    · omega
    · split
      · omega
      · split <;> omega

theorem roundHE_ge_of_ge (y : ℚ) (N : ℤ) (h : (N:ℚ) ≤ y) : N ≤ roundHE y := by
  unfold roundHE
  have hf : N ≤ ⌊y⌋ := Int.le_floor.2 h
  simp only []
  split
  · omega
  · split
    · omega
    · split <;> omega

/-- body of '{:.kf}' for k ≥ 1 : sign, integer digits, '.', k fractional digits -/
def fixedLen (x : ℚ) (k : Nat) : Nat :=
  let n := roundHE (x * 10^k)
  let m := n.natAbs
  (if x < 0 then 1 else 0) + (decDigits (m / 10^k)).length + 1 + k

/-- the 3-decimal class of `_format_xyz`: every x in (-999.5, 9999.5) prints in at most 8 columns -/
theorem width3 (x : ℚ) (hlo : -(1999:ℚ)/2 < x) (hhi : x < (19999:ℚ)/2) : fixedLen x 3 ≤ 8 := by
  unfold fixedLen
  have h1 : roundHE (x * 10^3) ≤ 9999500 := by
    apply roundHE_le_of_le; push_cast; nlinarith
  have h2 : (-999500 : ℤ) ≤ roundHE (x * 10^3) := by
    apply roundHE_ge_of_ge; push_cast; nlinarith
  simp only []
  by_cases hx : x < 0
  · -- negative: n ∈ [-999500, 0]
    have h3 : roundHE (x * 10^3) ≤ 0 := by
      apply roundHE_le_of_le; push_cast; nlinarith
    have hm : (roundHE (x * 10^3)).natAbs ≤ 999500 := by omega
    have hq : (roundHE (x * 10^3)).natAbs / 10^3 < 10^(2+1) := by
      have : (roundHE (x * 10^3)).natAbs / 10^3 ≤ 999 := by omega
      omega
    have := decDigits_length_le 2 _ hq
    norm_num [hx] at this ⊢; omega
  · have h3 : 0 ≤ roundHE (x * 10^3) := by
      apply roundHE_ge_of_ge; push_cast; push Not at hx; nlinarith
    have hm : (roundHE (x * 10^3)).natAbs ≤ 9999500 := by omega
    have hq : (roundHE (x * 10^3)).natAbs / 10^3 < 10^(3+1) := by
      have : (roundHE (x * 10^3)).natAbs / 10^3 ≤ 9999 := by omega
      omega
    have := decDigits_length_le 3 _ hq
    norm_num [hx] at this ⊢; omega

#print axioms width3
end F
