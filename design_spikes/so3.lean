import Mathlib.Tactic.Linarith
import Mathlib.Tactic.Ring
import Mathlib.Tactic.LinearCombination
import Mathlib.Data.Real.Basic

structure IsSO3 (a b c d e f g h i : ℝ) : Prop where
  r1 : a*a + b*b + c*c = 1
  r2 : d*d + e*e + f*f = 1
  r3 : g*g + h*h + i*i = 1
  r12 : a*d + b*e + c*f = 0
  r13 : a*g + b*h + c*i = 0
  r23 : d*g + e*h + f*i = 0
  det : a*(e*i - f*h) - b*(d*i - f*g) + c*(d*h - e*g) = 1

theorem sq3_zero {x y z : ℝ} (h : x^2 + y^2 + z^2 = 0) : x = 0 ∧ y = 0 ∧ z = 0 := by
  refine ⟨?_, ?_, ?_⟩ <;> nlinarith [sq_nonneg x, sq_nonneg y, sq_nonneg z]

-- row3 = row1 × row2
theorem cross12 {a b c d e f g h i : ℝ} (H : IsSO3 a b c d e f g h i) :
    g = b*f - c*e ∧ h = c*d - a*f ∧ i = a*e - b*d := by
  obtain ⟨r1,r2,r3,r12,r13,r23,det⟩ := H
  have hw : (b*f - c*e - g)^2 + (c*d - a*f - h)^2 + (a*e - b*d - i)^2 = 0 := by
    linear_combination (d*d+e*e+f*f) * r1 + r2 - (a*d+b*e+c*f) * r12 - 2 * det + r3
  obtain ⟨h1,h2,h3⟩ := sq3_zero hw
  exact ⟨by linarith, by linarith, by linarith⟩

theorem cross23 {a b c d e f g h i : ℝ} (H : IsSO3 a b c d e f g h i) :
    a = e*i - f*h ∧ b = f*g - d*i ∧ c = d*h - e*g := by
  obtain ⟨r1,r2,r3,r12,r13,r23,det⟩ := H
  have hw : (e*i - f*h - a)^2 + (f*g - d*i - b)^2 + (d*h - e*g - c)^2 = 0 := by
    linear_combination (g*g+h*h+i*i) * r2 + r3 - (d*g+e*h+f*i) * r23 - 2 * det + r1
  obtain ⟨h1,h2,h3⟩ := sq3_zero hw
  exact ⟨by linarith, by linarith, by linarith⟩

theorem cross31 {a b c d e f g h i : ℝ} (H : IsSO3 a b c d e f g h i) :
    d = h*c - i*b ∧ e = i*a - g*c ∧ f = g*b - h*a := by
  obtain ⟨r1,r2,r3,r12,r13,r23,det⟩ := H
  have hw : (h*c - i*b - d)^2 + (i*a - g*c - e)^2 + (g*b - h*a - f)^2 = 0 := by
    linear_combination (a*a+b*b+c*c) * r3 + r1 - (a*g+b*h+c*i) * r13 - 2 * det + r2
  obtain ⟨h1,h2,h3⟩ := sq3_zero hw
  exact ⟨by linarith, by linarith, by linarith⟩

theorem trace_ge_neg_one {a b c d e f g h i : ℝ} (H : IsSO3 a b c d e f g h i) :
    -1 ≤ a + e + i := by
  obtain ⟨_,_,hi⟩ := cross12 H
  obtain ⟨ha,_,_⟩ := cross23 H
  obtain ⟨_,he,_⟩ := cross31 H
  obtain ⟨r1,r2,r3,r12,r13,r23,det⟩ := H
  have key : (1 + (a+e+i)) * (3 - (a+e+i)) = (h-f)^2 + (c-g)^2 + (d-b)^2 := by
    linear_combination 2*hi + 2*he + 2*ha - r1 - r2 - r3
  have ha1 : a ≤ 1 := by nlinarith [sq_nonneg b, sq_nonneg c, sq_nonneg (a-1)]
  have he1 : e ≤ 1 := by nlinarith [sq_nonneg d, sq_nonneg f, sq_nonneg (e-1)]
  have hi1 : i ≤ 1 := by nlinarith [sq_nonneg g, sq_nonneg h, sq_nonneg (i-1)]
  by_contra hlt
  push Not at hlt
  have h3 : 0 < 3 - (a+e+i) := by linarith
  have : (1 + (a+e+i)) * (3 - (a+e+i)) < 0 := by
    apply mul_neg_of_neg_of_pos <;> linarith
  nlinarith [sq_nonneg (h-f), sq_nonneg (c-g), sq_nonneg (d-b)]

-- Horn-type inequality: diag entries of a rotation
theorem horn {a b c d e f g h i : ℝ} (H : IsSO3 a b c d e f g h i) : a + e - i ≤ 1 := by
  have H' : IsSO3 (-a) (-b) c (-d) (-e) f (-g) (-h) i := by
    obtain ⟨r1,r2,r3,r12,r13,r23,det⟩ := H
    constructor <;> nlinarith
  have := trace_ge_neg_one H'
  linarith
#print axioms horn
