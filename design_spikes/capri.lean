import Mathlib.Order.Basic
import Mathlib.Tactic.Linarith
import Mathlib.Order.Defs.LinearOrder

-- as the translator would emit it (constants abstracted as parameters in source order)
inductive PyRes (α : Type) | ret (a : α) | unbound
deriving DecidableEq, Repr

def capriGen {α} [LinearOrder α] (c01 c10 c4 c01' c03 c10' c4' c03' c5 c2 c03'' c05 c5' c2' c05' c1 c1' c05'' c1'' c1''' : α)
    (fnat lrmsd irmsd : α) : PyRes String :=
  if fnat < c01 ∨ (lrmsd > c10 ∧ irmsd > c4) then .ret "incorrect"
  else if (c01' ≤ fnat ∧ fnat < c03) ∧ (lrmsd ≤ c10' ∨ irmsd ≤ c4') ∨ (fnat ≥ c03' ∧ lrmsd > c5 ∧ irmsd > c2) then .ret "acceptable"
  else if (c03'' ≤ fnat ∧ fnat < c05) ∧ (lrmsd ≤ c5' ∨ irmsd ≤ c2') ∨ (fnat ≥ c05' ∧ lrmsd > c1 ∧ irmsd > c1') then .ret "medium"
  else if fnat ≥ c05'' ∧ (lrmsd ≤ c1'' ∨ irmsd ≤ c1''') then .ret "high"
  else .unbound

def capri {α} [LinearOrder α] (f1 f3 f5 l1 l5 l10 i1 i2 i4 : α) (fnat lrmsd irmsd : α) : PyRes String :=
  capriGen f1 l10 i4 f1 f3 l10 i4 f3 l5 i2 f3 f5 l5 i2 f5 l1 i1 f5 l1 i1 fnat lrmsd irmsd

-- spec: best class whose criterion holds
def capriSpec {α} [LinearOrder α] (f1 f3 f5 l1 l5 l10 i1 i2 i4 : α) (f l i : α) : String :=
  if f ≥ f5 ∧ (l ≤ l1 ∨ i ≤ i1) then "high"
  else if f ≥ f3 ∧ (l ≤ l5 ∨ i ≤ i2) then "medium"
  else if f ≥ f1 ∧ (l ≤ l10 ∨ i ≤ i4) then "acceptable"
  else "incorrect"

theorem capri_eq_spec {α} [LinearOrder α] (f1 f3 f5 l1 l5 l10 i1 i2 i4 : α)
    (hf : f1 < f3 ∧ f3 < f5) (hl : l1 < l5 ∧ l5 < l10) (hi : i1 < i2 ∧ i2 < i4) (f l i : α) :
    capri f1 f3 f5 l1 l5 l10 i1 i2 i4 f l i = .ret (capriSpec f1 f3 f5 l1 l5 l10 i1 i2 i4 f l i) := by
  unfold capri capriGen capriSpec
  grind

def rank : String → Nat | "high" => 3 | "medium" => 2 | "acceptable" => 1 | _ => 0
theorem capri_mono {α} [LinearOrder α] (f1 f3 f5 l1 l5 l10 i1 i2 i4 : α)
    (hf : f1 < f3 ∧ f3 < f5) (hl : l1 < l5 ∧ l5 < l10) (hi : i1 < i2 ∧ i2 < i4) (f l i f' l' i' : α)
    (h1 : f ≤ f') (h2 : l' ≤ l) (h3 : i' ≤ i) :
    rank (capriSpec f1 f3 f5 l1 l5 l10 i1 i2 i4 f l i) ≤ rank (capriSpec f1 f3 f5 l1 l5 l10 i1 i2 i4 f' l' i') := by
  unfold capriSpec
  split_ifs <;> simp [rank] <;> grind
#print axioms capri_eq_spec
#print axioms capri_mono
