/-! Spike for C16: two-or-more tasks sharing a zone-file cache, all interleavings. -/
namespace C16
abbrev Zone := List Nat          -- abstract zone content (lines)

/-- shared state: the cache file, `none` = absent -/
abbrev Cache := Option Zone

inductive Pc | start | compute | publish | read | done
deriving DecidableEq, Repr

structure Tsk where
  pc   : Pc
  zone : Option Zone     -- the zone this task will score with
deriving Repr

/-- one atomic step of task `t` against the shared cache; `Z` is the zone computed from the (read-only) reference -/
def stepAtomic (Z : Zone) (c : Cache) (t : Tsk) : Cache × Tsk :=
  match t.pc with
  | .start   => if c.isSome then (c, { t with pc := .read }) else (c, { t with pc := .compute })
  | .compute => (c, { pc := .publish, zone := some Z })          -- compute in memory, write private temp file
  | .publish => (some Z, { t with pc := .done })                   -- os.replace(tmp, cache): atomic
  | .read    => (c, { pc := .done, zone := c })                    -- read whole file
  | .done    => (c, t)

structure Sys where
  cache : Cache
  tasks : List Tsk

def Sys.step (Z : Zone) (s : Sys) (k : Nat) : Sys :=
  match h : s.tasks[k]? with
  | none => s
  | some t =>
    let (c', t') := stepAtomic Z s.cache t
    { cache := c', tasks := s.tasks.set k t' }

def Sys.run (Z : Zone) (s : Sys) (sched : List Nat) : Sys := sched.foldl (Sys.step Z) s

/-- invariant: cache is absent or complete; a task past `start` that has a zone has the right one;
    a task at `read` implies the cache is present -/
def TaskOk (Z : Zone) (c : Cache) (t : Tsk) : Prop :=
  (t.pc = .read → c = some Z) ∧
  (t.pc = .publish → t.zone = some Z) ∧
  (t.pc = .done → t.zone = some Z)

def SInv (Z : Zone) (s : Sys) : Prop :=
  (s.cache = none ∨ s.cache = some Z) ∧ ∀ t ∈ s.tasks, TaskOk Z s.cache t

theorem ok_set (Z : Zone) (c : Cache) (ts : List Tsk) (k : Nat) (t' : Tsk)
    (hold : ∀ t ∈ ts, TaskOk Z c t) (hnew : TaskOk Z c t') : ∀ t ∈ ts.set k t', TaskOk Z c t := by
  intro t ht
  rcases List.mem_or_eq_of_mem_set ht with h1 | h1
  · exact hold t h1
  · subst h1; exact hnew

theorem step_inv (Z : Zone) (s : Sys) (k : Nat) (h : SInv Z s) : SInv Z (s.step Z k) := by
  unfold Sys.step
  split
  · exact h
  · rename_i t ht
    obtain ⟨hc, hts⟩ := h
    have htmem : t ∈ s.tasks := List.mem_of_getElem? ht
    obtain ⟨hr, hp, hd⟩ := hts t htmem
    cases hpc : t.pc with
    | start =>
      simp only [stepAtomic, hpc]
      split
      · rename_i hsome
        refine ⟨hc, ok_set Z _ _ _ _ hts ?_⟩
        have : s.cache = some Z := by
          rcases hc with h0 | h0 <;> simp_all
        simp [TaskOk, this]
      · refine ⟨hc, ok_set Z _ _ _ _ hts ?_⟩
        simp [TaskOk]
    | compute =>
      simp only [stepAtomic, hpc]
      refine ⟨hc, ok_set Z _ _ _ _ hts ?_⟩
      simp [TaskOk]
    | publish =>
      simp only [stepAtomic, hpc]
      refine ⟨Or.inr rfl, ok_set Z _ _ _ _ ?_ ?_⟩
      · intro t2 ht2
        obtain ⟨h1, h2, h3⟩ := hts t2 ht2
        exact ⟨fun _ => rfl, h2, h3⟩
      · have := hp hpc
        simp [TaskOk, this]
    | read =>
      simp only [stepAtomic, hpc]
      refine ⟨hc, ok_set Z _ _ _ _ hts ?_⟩
      have := hr hpc
      simp [TaskOk, this]
    | done =>
      simp only [stepAtomic, hpc]
      refine ⟨hc, ok_set Z _ _ _ _ hts ?_⟩
      exact ⟨hr, hp, hd⟩

theorem run_inv (Z : Zone) (s : Sys) (sched : List Nat) (h : SInv Z s) : SInv Z (s.run Z sched) := by
  induction sched generalizing s with
  | nil => exact h
  | cons k ks ih => exact ih _ (step_inv Z s k h)

/-- every schedule: any finished task scored with exactly the zone it would have used alone -/
theorem noninterference (Z : Zone) (n : Nat) (c0 : Cache) (hc : c0 = none ∨ c0 = some Z) (sched : List Nat) :
    ∀ t ∈ (Sys.run Z ⟨c0, List.replicate n ⟨.start, none⟩⟩ sched).tasks, t.pc = .done → t.zone = some Z := by
  have h0 : SInv Z ⟨c0, List.replicate n ⟨.start, none⟩⟩ := by
    refine ⟨hc, ?_⟩
    intro t ht
    have := List.eq_of_mem_replicate ht
    subst this; simp [TaskOk]
  intro t ht hd
  exact ((run_inv Z _ sched h0).2 t ht).2.2 hd
#print axioms noninterference
end C16
