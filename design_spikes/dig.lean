def digitChar (n : Nat) : Char := Char.ofNat (48 + n % 10)

def decDigits (n : Nat) : List Char :=
  if h : n < 10 then [digitChar n] else decDigits (n / 10) ++ [digitChar (n % 10)]
termination_by n
decreasing_by omega

theorem decDigits_length_le (d : Nat) : ∀ n, n < 10 ^ (d+1) → (decDigits n).length ≤ d + 1 := by
  induction d with
  | zero => intro n h; unfold decDigits; simp at h; simp [h]
  | succ d ih =>
    intro n h
    unfold decDigits
    split
    · simp
    · have : n / 10 < 10 ^ (d+1) := by
        have : 10 ^ (d+1+1) = 10 ^ (d+1) * 10 := by rw [Nat.pow_succ]
        omega
      have := ih _ this
      simp; omega

theorem decDigits_length_ge (d : Nat) : ∀ n, 10 ^ d ≤ n → d + 1 ≤ (decDigits n).length := by
  induction d with
  | zero => intro n h; unfold decDigits; split <;> simp
  | succ d ih =>
    intro n h
    unfold decDigits
    have h10 : 10 ^ (d+1) = 10 ^ d * 10 := by rw [Nat.pow_succ]
    split
    · have : 1 ≤ 10 ^ d := Nat.one_le_pow _ _ (by omega)
      omega
    · have : 10 ^ d ≤ n / 10 := by omega
      have := ih _ this
      simp; omega

#eval String.ofList (decDigits 12034)
#eval (toString 12034) == String.ofList (decDigits 12034)
#print axioms decDigits_length_le
