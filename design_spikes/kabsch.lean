import Mathlib.Tactic.Linarith
import Mathlib.Tactic.Ring
import Mathlib.Tactic.LinearCombination
import Mathlib.Data.Real.Basic

namespace K

@[ext] structure Mat3 where
  (a b c d e f g h i : ℝ)

namespace Mat3
def mul (M N : Mat3) : Mat3 :=
  ⟨M.a*N.a + M.b*N.d + M.c*N.g, M.a*N.b + M.b*N.e + M.c*N.h, M.a*N.c + M.b*N.f + M.c*N.i,
   M.d*N.a + M.e*N.d + M.f*N.g, M.d*N.b + M.e*N.e + M.f*N.h, M.d*N.c + M.e*N.f + M.f*N.i,
   M.g*N.a + M.h*N.d + M.i*N.g, M.g*N.b + M.h*N.e + M.i*N.h, M.g*N.c + M.h*N.f + M.i*N.i⟩
instance : Mul Mat3 := ⟨mul⟩
def T (M : Mat3) : Mat3 := ⟨M.a, M.d, M.g, M.b, M.e, M.h, M.c, M.f, M.i⟩
def one : Mat3 := ⟨1,0,0, 0,1,0, 0,0,1⟩
def diag (x y z : ℝ) : Mat3 := ⟨x,0,0, 0,y,0, 0,0,z⟩
def tr (M : Mat3) : ℝ := M.a + M.e + M.i
def det (M : Mat3) : ℝ := M.a*(M.e*M.i - M.f*M.h) - M.b*(M.d*M.i - M.f*M.g) + M.c*(M.d*M.h - M.e*M.g)

theorem mul_def (M N : Mat3) : M * N = mul M N := rfl

theorem mul_assoc (A B C : Mat3) : A * B * C = A * (B * C) := by
  ext <;> simp only [mul_def, mul] <;> ring
theorem T_mul (A B : Mat3) : T (A * B) = T B * T A := by
  ext <;> simp only [mul_def, mul, T] <;> ring
theorem T_T (A : Mat3) : T (T A) = A := by ext <;> rfl
theorem mul_one' (A : Mat3) : A * one = A := by ext <;> simp [mul_def, mul, one]
theorem one_mul' (A : Mat3) : one * A = A := by ext <;> simp [mul_def, mul, one]
theorem tr_mul_comm (A B : Mat3) : tr (A * B) = tr (B * A) := by
  simp only [mul_def, mul, tr]; ring
theorem det_mul (A B : Mat3) : det (A * B) = det A * det B := by
  simp only [mul_def, mul, det]; ring
theorem det_T (A : Mat3) : det (T A) = det A := by simp only [T, det]; ring
theorem det_one : det one = 1 := by simp [det, one]

def Orth (M : Mat3) : Prop := M * T M = one
def SO3 (M : Mat3) : Prop := Orth M ∧ det M = 1

theorem Orth.det_sq {M : Mat3} (h : Orth M) : det M * det M = 1 := by
  have := congrArg det h
  rw [det_mul, det_T, det_one] at this; exact this

/-- left inverse from right inverse, via det ≠ 0 is avoidable: M Mᵀ = 1 ⇒ Mᵀ M = 1 for 3×3 needs adjugate;
    we simply carry both as hypotheses where needed. -/
def Orth2 (M : Mat3) : Prop := M * T M = one ∧ T M * M = one

theorem Orth2.mul {A B : Mat3} (hA : Orth2 A) (hB : Orth2 B) : Orth2 (A * B) := by
  constructor
  · rw [T_mul, mul_assoc, ← mul_assoc B, hB.1, one_mul', hA.1]
  · rw [T_mul, mul_assoc, ← mul_assoc (T A), hA.2, one_mul', hB.2]
theorem Orth2.T {A : Mat3} (hA : Orth2 A) : Orth2 (T A) := by
  constructor
  · rw [T_T]; exact hA.2
  · rw [T_T]; exact hA.1
end Mat3

open Mat3

structure IsSO3 (a b c d e f g h i : ℝ) : Prop where
  r1 : a*a + b*b + c*c = 1
  r2 : d*d + e*e + f*f = 1
  r3 : g*g + h*h + i*i = 1
  r12 : a*d + b*e + c*f = 0
  r13 : a*g + b*h + c*i = 0
  r23 : d*g + e*h + f*i = 0
  det : a*(e*i - f*h) - b*(d*i - f*g) + c*(d*h - e*g) = 1

theorem isSO3_of (M : Mat3) (h : M * T M = one) (hd : det M = 1) :
    IsSO3 M.a M.b M.c M.d M.e M.f M.g M.h M.i := by
  have ha := congrArg Mat3.a h; have hb := congrArg Mat3.b h; have hc := congrArg Mat3.c h
  have he := congrArg Mat3.e h; have hf := congrArg Mat3.f h; have hi := congrArg Mat3.i h
  simp only [mul_def, mul, T, one] at ha hb hc he hf hi
  exact ⟨ha, he, hi, hb, hc, hf, hd⟩

theorem sq3_zero {x y z : ℝ} (h : x^2 + y^2 + z^2 = 0) : x = 0 ∧ y = 0 ∧ z = 0 := by
  refine ⟨?_, ?_, ?_⟩ <;> nlinarith [sq_nonneg x, sq_nonneg y, sq_nonneg z]

theorem cross12 {a b c d e f g h i : ℝ} (H : IsSO3 a b c d e f g h i) :
    g = b*f - c*e ∧ h = c*d - a*f ∧ i = a*e - b*d := by
  obtain ⟨r1,r2,r3,r12,r13,r23,det⟩ := H
  have hw : (b*f - c*e - g)^2 + (c*d - a*f - h)^2 + (a*e - b*d - i)^2 = 0 := by
    linear_combination (d*d+e*e+f*f) * r1 + r2 - (a*d+b*e+c*f) * r12 - 2 * det + r3
  obtain ⟨h1,h2,h3⟩ := sq3_zero hw
  exact ⟨by linarith, by linarith, by linarith⟩
theorem cross23 {a b c d e f g h i : ℝ} (H : IsSO3 a b c d e f g h i) :
    a = e*i - f*h ∧ b = f*g - d*i ∧ c = d*h - e*g := by
  obtain ⟨r1,r2,r3,r12,r13,r23,det⟩ := H
  have hw : (e*i - f*h - a)^2 + (f*g - d*i - b)^2 + (d*h - e*g - c)^2 = 0 := by
    linear_combination (g*g+h*h+i*i) * r2 + r3 - (d*g+e*h+f*i) * r23 - 2 * det + r1
  obtain ⟨h1,h2,h3⟩ := sq3_zero hw
  exact ⟨by linarith, by linarith, by linarith⟩
theorem cross31 {a b c d e f g h i : ℝ} (H : IsSO3 a b c d e f g h i) :
    d = h*c - i*b ∧ e = i*a - g*c ∧ f = g*b - h*a := by
  obtain ⟨r1,r2,r3,r12,r13,r23,det⟩ := H
  have hw : (h*c - i*b - d)^2 + (i*a - g*c - e)^2 + (g*b - h*a - f)^2 = 0 := by
    linear_combination (a*a+b*b+c*c) * r3 + r1 - (a*g+b*h+c*i) * r13 - 2 * det + r2
  obtain ⟨h1,h2,h3⟩ := sq3_zero hw
  exact ⟨by linarith, by linarith, by linarith⟩

theorem trace_ge_neg_one {a b c d e f g h i : ℝ} (H : IsSO3 a b c d e f g h i) : -1 ≤ a + e + i := by
  obtain ⟨_,_,hi⟩ := cross12 H
  obtain ⟨ha,_,_⟩ := cross23 H
  obtain ⟨_,he,_⟩ := cross31 H
  obtain ⟨r1,r2,r3,r12,r13,r23,det⟩ := H
  have key : (1 + (a+e+i)) * (3 - (a+e+i)) = (h-f)^2 + (c-g)^2 + (d-b)^2 := by
    linear_combination 2*hi + 2*he + 2*ha - r1 - r2 - r3
  have ha1 : a ≤ 1 := by nlinarith [sq_nonneg b, sq_nonneg c, sq_nonneg (a-1)]
  have he1 : e ≤ 1 := by nlinarith [sq_nonneg d, sq_nonneg f, sq_nonneg (e-1)]
  have hi1 : i ≤ 1 := by nlinarith [sq_nonneg g, sq_nonneg h, sq_nonneg (i-1)]
  by_contra hlt
  push Not at hlt
  have h3 : 0 < 3 - (a+e+i) := by linarith
  have : (1 + (a+e+i)) * (3 - (a+e+i)) < 0 := by
    apply mul_neg_of_neg_of_pos <;> linarith
  nlinarith [sq_nonneg (h-f), sq_nonneg (c-g), sq_nonneg (d-b)]

theorem horn {a b c d e f g h i : ℝ} (H : IsSO3 a b c d e f g h i) : a + e - i ≤ 1 := by
  have H' : IsSO3 (-a) (-b) c (-d) (-e) f (-g) (-h) i := by
    obtain ⟨r1,r2,r3,r12,r13,r23,det⟩ := H
    constructor <;> nlinarith
  have := trace_ge_neg_one H'
  linarith

theorem diag_le_one {a b c d e f g h i : ℝ} (H : IsSO3 a b c d e f g h i) : a ≤ 1 ∧ e ≤ 1 ∧ i ≤ 1 ∧ -1 ≤ i := by
  obtain ⟨r1,r2,r3,_,_,_,_⟩ := H
  refine ⟨?_, ?_, ?_, ?_⟩
  · nlinarith [sq_nonneg b, sq_nonneg c, sq_nonneg (a-1)]
  · nlinarith [sq_nonneg d, sq_nonneg f, sq_nonneg (e-1)]
  · nlinarith [sq_nonneg g, sq_nonneg h, sq_nonneg (i-1)]
  · nlinarith [sq_nonneg g, sq_nonneg h, sq_nonneg (i+1)]

/-- the two scalar bounds behind Kabsch -/
theorem bound_pos {a b c d e f g h i s1 s2 s3 : ℝ} (H : IsSO3 a b c d e f g h i)
    (h1 : 0 ≤ s1) (h2 : 0 ≤ s2) (h3 : 0 ≤ s3) : a*s1 + e*s2 + i*s3 ≤ s1 + s2 + s3 := by
  obtain ⟨ha, he, hi, _⟩ := diag_le_one H
  nlinarith [mul_nonneg h1 (sub_nonneg.2 ha), mul_nonneg h2 (sub_nonneg.2 he), mul_nonneg h3 (sub_nonneg.2 hi)]

theorem bound_neg {a b c d e f g h i s1 s2 s3 : ℝ} (H : IsSO3 a b c d e f g h i)
    (h12 : s2 ≤ s1) (h23 : s3 ≤ s2) (h3 : 0 ≤ s3) : a*s1 + e*s2 - i*s3 ≤ s1 + s2 - s3 := by
  obtain ⟨ha, he, hi, _⟩ := diag_le_one H
  have hh := horn H
  have h2 : 0 ≤ s2 := le_trans h3 h23
  nlinarith [mul_nonneg (sub_nonneg.2 h12) (sub_nonneg.2 ha),
             mul_nonneg h2 (sub_nonneg.2 hh),
             mul_nonneg (sub_nonneg.2 h23) (sub_nonneg.2 hi)]

/-- Kabsch: with A = V·diag(σ)·Wᵀ (V, W orthogonal, σ₁ ≥ σ₂ ≥ σ₃ ≥ 0) and δ = det(W·Vᵀ),
    U = W·diag(1,1,δ)·Vᵀ is a proper rotation maximising tr(R·A) over all proper rotations R. -/
theorem kabsch (V W R : Mat3) (s1 s2 s3 : ℝ)
    (hV : Orth2 V) (hW : Orth2 W) (hR : Orth2 R) (hRd : det R = 1)
    (h12 : s2 ≤ s1) (h23 : s3 ≤ s2) (h3 : 0 ≤ s3) :
    let δ := det (W * T V)
    let A := V * diag s1 s2 s3 * T W
    let U := W * diag 1 1 δ * T V
    (Orth2 U ∧ det U = 1) ∧ tr (R * A) ≤ tr (U * A) := by
  intro δ A U
  have hδ : δ = det W * det V := by simp only [δ, det_mul, det_T]
  have hVd : det V * det V = 1 := Orth.det_sq hV.1
  have hWd : det W * det W = 1 := Orth.det_sq hW.1
  have hδ2 : δ * δ = 1 := by rw [hδ]; nlinarith
  have hδcases : δ = 1 ∨ δ = -1 := by
    have : (δ - 1) * (δ + 1) = 0 := by nlinarith
    rcases mul_eq_zero.1 this with h | h
    · left; linarith
    · right; linarith
  -- diag(1,1,δ) is orthogonal
  have hD : Orth2 (diag 1 1 δ) := by
    constructor <;> (ext <;> simp [mul_def, mul, T, diag, one, hδ2])
  have hU : Orth2 U := (hW.mul hD).mul hV.T
  have hUd : det U = 1 := by
    simp only [U, det_mul, det_T]
    have : det (diag 1 1 δ) = δ := by simp [det, diag]
    rw [this, hδ]; nlinarith
  refine ⟨⟨hU, hUd⟩, ?_⟩
  -- tr(U A) = s1 + s2 + δ s3
  have hUA : tr (U * A) = s1 + s2 + δ * s3 := by
    have e1 : U * A = W * (diag 1 1 δ * diag s1 s2 s3) * T W := by
      simp only [U, A]
      calc W * diag 1 1 δ * T V * (V * diag s1 s2 s3 * T W)
          = W * diag 1 1 δ * (T V * V) * diag s1 s2 s3 * T W := by simp only [mul_assoc]
        _ = W * (diag 1 1 δ * diag s1 s2 s3) * T W := by rw [hV.2]; simp only [mul_assoc, one_mul']
    rw [e1, tr_mul_comm, ← mul_assoc, hW.2, one_mul']
    simp [tr, mul_def, mul, diag]
  -- tr(R A) = tr(R' S) with R' = Wᵀ R V
  have hRA : tr (R * A) = tr (T W * R * V * diag s1 s2 s3) := by
    simp only [A]
    rw [← mul_assoc, tr_mul_comm, ← mul_assoc, ← mul_assoc]
  set R' := T W * R * V with hR'
  have hR'o : Orth2 R' := (hW.T.mul hR).mul hV
  have hR'd : det R' = δ := by
    simp only [hR', det_mul, det_T, hRd, hδ]; ring
  rw [hRA, hUA]
  rcases hδcases with h1 | h1
  · -- proper case
    have HS := isSO3_of R' hR'o.1 (by rw [hR'd, h1])
    have := bound_pos HS (le_trans (le_trans h3 h23) h12) (le_trans h3 h23) h3
    rw [h1]; simp only [tr, mul_def, mul, diag]; nlinarith
  · -- improper case: R'' = R'·diag(1,1,-1) is proper
    set R'' := R' * diag 1 1 (-1) with hR''
    have hDm : Orth2 (diag 1 1 (-1)) := by
      constructor <;> (ext <;> simp [mul_def, mul, T, diag, one])
    have hR''o : Orth2 R'' := hR'o.mul hDm
    have hR''d : det R'' = 1 := by
      simp only [hR'', det_mul, hR'd, h1]; simp [det, diag]
    have HS := isSO3_of R'' hR''o.1 hR''d
    have := bound_neg HS h12 h23 h3
    rw [h1]
    simp only [hR'', tr, mul_def, mul, diag] at this ⊢
    nlinarith

#print axioms kabsch
end K
