#!/bin/bash
# confirm_round.sh <round-dir> <round-tag> <ID> [<ID> ...]: confirm every <round-dir>/<ID>/out/m*/ as seed <ID>-<round-tag>m<k>
R=$1; TAG=$2; shift 2
for ID in "$@"; do
  for d in $R/$ID/out/m*/; do
    [ -f "$d/patch.diff" ] || continue
    k=$(basename $d)
    SID=$ID-$TAG$k
    [ -d /verif/seeded/$SID ] && continue
    echo "##### $SID"
    /verif/tools/confirm_seed.sh "$d" "$SID" "$ID"
  done
done
