#!/bin/bash
# run the relevant checks against each refactoring patch
cd /verif
for d in /verif/refactorings/[0-9]*; do
  p=$d/patch.diff; [ -f $p ] || continue
  files=$(grep '^+++ b/' $p | sed 's#+++ b/pdb2sql/##' | tr '\n' ' ')
  checks=""
  for f in $files; do
    case $f in
      pdb2sqlcore.py) checks="$checks C01 C02 C03 C04 C15 C17 C19 C20 C10";;
      pdb2sql_base.py) checks="$checks C02 C03 C15 C16 C20";;
      interface.py) checks="$checks C05 C14 C08 C07";;
      superpose.py) checks="$checks C06 C13 C07 C09";;
      transform.py) checks="$checks C10 C18";;
      align.py) checks="$checks C18 C16";;
      many2sql.py) checks="$checks C19 C15 C13";;
      StructureSimilarity.py) checks="$checks C07 C08 C09 C11 C12 C16";;
    esac
  done
  checks=$(echo $checks | tr ' ' '\n' | sort -u | tr '\n' ' ')
  echo "##### $(basename $d) files: $files checks: $checks"
  head -3 $d/note.txt 2>/dev/null | cut -c1-200
  tools/muttest.sh $p $checks 2>&1 | grep -v vanish | grep -E "^===|VIOLATION|CHECK-ERROR|exit=" | paste - - | sed 's/=== //'
done
