#!/usr/bin/env python3
"""print the markdown table of seeded changes from /verif/seeded/*/meta.json"""
import json, os, re
root = os.path.join(os.path.dirname(os.path.dirname(os.path.abspath(__file__))), 'seeded')
print('| seed | property | what the change does / what it needs to manifest | reported by |')
print('|---|---|---|---|')
for d in sorted(os.listdir(root)):
    mp = os.path.join(root, d, 'meta.json')
    if not os.path.exists(mp):
        continue
    m = json.load(open(mp))
    runs = m.get('confirmed', {}).get('checks_run', '')
    caught = []
    for cid, body in re.findall(r'(C\d+):\[([^\]]*)\]', runs):
        if 'VIOLATION' in body:
            caught.append(cid + (' (no-failing-input-found)' if 'no-failing-input-found' in body else ''))
        else:
            caught.append('~~' + cid + '~~ (not reported)')
    summ = (m.get('summary', '') or '').replace('|', '/').replace('\n', ' ')
    needs = (m.get('needs', '') or '').replace('|', '/').replace('\n', ' ')
    print(f"| {d} | {m.get('property')} | {summ[:260]} — needs: {needs[:200]} | {', '.join(caught)} |")
