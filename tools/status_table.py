#!/usr/bin/env python3
"""print a markdown table: per property, number of audited theorems (Props/<pid>.lean and Props/<pid>K*.lean), obligations, cases, wall time of the last run (from evidence/<pid>.json)"""
import json, os, re, glob
V = os.path.dirname(os.path.dirname(os.path.abspath(__file__)))
print('| id | theorems in Props/<id>.lean | theorems in Props/<id>K*.lean (generated = model) | obligations discharged | cases + extra checks in the last run | tier, wall time |')
print('|---|---|---|---|---|---|')
for pid in ['C%02d' % i for i in range(1, 21)]:
    e = json.load(open(os.path.join(V, 'evidence', pid + '.json')))
    cov = e['coverage']
    names = [o['name'][8:] for o in cov['obligation_list'] if o['name'].startswith('theorem:')]
    def count(path):
        n = 0
        for line in open(path):
            if re.match(r'\s*(?:private\s+|protected\s+)?theorem\s', line):
                n += 1
        return n
    base = count(os.path.join(V, 'lean/PdbVerif/Props', pid + '.lean'))
    ks = sum(count(p) for p in glob.glob(os.path.join(V, 'lean/PdbVerif/Props', pid + 'K*.lean')))
    print(f"| {pid} | {base} | {ks} | {cov['discharged']}/{cov['obligations']} | {cov['evaluations']} + {len(cov.get('extra_checks', []))} | {e['tier']}, {e['wall_s']:.0f} s |")
