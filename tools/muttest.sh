#!/bin/bash
# muttest.sh <patch.diff> <ID> [<ID> ...]
# Runs the checks of the given properties against a scratch worktree of /repo with the patch applied, using a scratch
# copy of /verif (so that neither /repo nor /verif/lean/Gen is disturbed while other work is going on).
set -u
PATCH=$(readlink -f "$1"); shift
W=$(mktemp -d /tmp/muttest.XXXXXX)
git -C /repo worktree add -q --detach "$W/repo" HEAD || exit 3
if ! git -C "$W/repo" apply "$PATCH"; then echo "PATCH DOES NOT APPLY"; git -C /repo worktree remove --force "$W/repo"; rm -rf "$W"; exit 3; fi
# committed state of /verif (work in progress of other contributors is not included) + the build cache for speed;
# MUTTEST_WORKTREE=1 uses the working tree instead
if [ "${MUTTEST_WORKTREE:-0}" = 1 ]; then
  rsync -a --exclude .git /verif/ "$W/verif/"
else
  mkdir -p "$W/verif" && git -C /verif archive HEAD | tar -x -C "$W/verif" && rsync -a /verif/lean/.lake "$W/verif/lean/"
fi
for ID in "$@"; do
  echo "=== $ID with $(basename $(dirname $PATCH))/$(basename $PATCH)"
  ( cd "$W/verif" && PDB2SQL_REPO="$W/repo" timeout 1500 ./check "$ID" 2>&1 | grep -E "VIOLATION|KNOWN-FINDING|CHECK-ERROR|TIMEOUT" ; echo "exit=${PIPESTATUS[0]}" )
  for f in "$W"/verif/replays/*.json; do [ -f "$f" ] && mkdir -p /tmp/mutreplays && cp "$f" /tmp/mutreplays/ ; done
done
git -C /repo worktree remove --force "$W/repo"
rm -rf "$W"
