#!/bin/bash
# run the pinned suite; print pass/fail counts; exit 0 iff exactly the 99 baseline tests pass
cd /repo && /venv/bin/python -m pytest -q -p no:cacheprovider --timeout=900 --continue-on-collection-errors -x -q "$@" 2>&1 | tail -3
