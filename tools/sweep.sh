#!/bin/bash
# sweep.sh <first_seed> <last_seed> [tier]: run every registered check for each seed; report anything that is not exit 0
cd "$(dirname "$0")/.."
TIER=${3:-quick}
( cd lean && lake build > /dev/null 2>&1 ) || echo "SETUP FAILED"
for s in $(seq $1 $2); do
  for p in C01 C02 C03 C04 C05 C06 C07 C08 C09 C10 C11 C12 C13 C14 C15 C16 C17 C18 C19 C20; do
    VERIF_SEED=$s ./check $p --tier $TIER > /tmp/sweep_out_$$.txt 2>&1; e=$?
    if [ $e -ne 0 ]; then echo "seed=$s $p exit=$e $(grep -E 'VIOLATION|CHECK-ERROR|TIMEOUT' /tmp/sweep_out_$$.txt | head -2 | cut -c1-200)"; cp /tmp/sweep_out_$$.txt sweep_fail_${p}_$s.txt; fi
  done
  echo "seed $s done $(date +%H:%M)"
done
