#!/usr/bin/env python3
"""Regenerate /verif/MANIFEST.json from the table below (run after adding a property check)."""
import json, os

VERIF = os.path.dirname(os.path.dirname(os.path.abspath(__file__)))
props = [json.loads(l) for l in open(os.path.join(VERIF, 'properties.jsonl'))]
ids = [p['id'] for p in props]

BASE_NOTE = ("Trusted: Lean 4.33 kernel; axioms propext/Classical.choice/Quot.sound only (audited every run); Mathlib as installed; "
             "the translator py/translate.py and the correspondence harness + Lean JSON drivers; CPython int/float/format/round, "
             "NumPy (svd/eig/det/mean/dot/trig) and SQLite are modelled as contracts and compared on samples; IEEE-754 rounding of "
             "the numeric kernels is sampled, not proved. ")

# id -> dict(category, text, note, technique, design_ref)
CLAIMED = {
    'C12': dict(
        category='proof',
        text=("compute_CapriClass and compute_DockQScore are translated from the current source to Lean on every run (Gen/Score.lean). "
              "Theorems (Props/C12.lean), for every input over any linear order / every rational: the cascade equals the published table "
              "criterion by criterion (capri_eq_table), is total with ordered thresholds (capri_total), equals the best class whose requirement "
              "holds (capri_eq_best_class, capri_concrete for the literals in the source), never worsens when a measure improves (capri_monotone); "
              "DockQ equals its formula (dockq_formula), lies in [0,1] (dockq_range), is 1 for a perfect model (dockq_perfect), is monotone "
              "(dockq_monotone) -- range and monotonicity for every rounding function that is monotone and exact on 0..3, and binary64 "
              "round-to-nearest-even is proved to be one (flok_toDouble, dockq_range_binary64, dockq_monotone_binary64), i.e. for the floating-point evaluation order in the source. Correspondence: all 343 threshold cells (exhaustive), the doubles adjacent to "
              "every threshold, random points; DockQ compared bit-exactly against the translated formula evaluated with binary64 rounding."),
        note=BASE_NOTE + "Assumed: Py.toDouble is IEEE binary64 rounding (validated bit-exactly on every sampled DockQ point; subnormals/overflow not modelled); C pow(x,2.0) = correctly rounded x*x.",
        technique='Lean 4 theorems over the translated source + exhaustive threshold-cell correspondence',
        design_ref='DESIGN.md 5/C12'),
    'C01': dict(
        category='proof',
        text=("The record loop's tables and fallbacks (col, delimiter, blank-field defaults, ATOM/ENDMDL prefixes, _format_pdb_linelength, _get_chainID, "
              "_get_element) are translated from the current source on every run; Model/Parse.lean follows the loop and read_pdb's seven input forms; "
              "Spec/C01.lean is the property's own column table and rules. Theorems (Props/C01.lean, 25): the source's column table IS the wwPDB table of the statement "
              "(delimiter_is_wwpdb), every slice is the stated columns (slice_is_columns), the chain/element fallbacks are the documented rules (get_chainID_spec, "
              "get_element_spec, element_unpadded), for EVERY string the modelled record parser equals the property's parseRecord (parse_fields) and for every list of lines "
              "the table equals one row per ATOM record in input order with the model counter (parse_rows, atom_records_in_order, rows_count, other_records_ignored), "
              "unrepresentable text makes the whole parse an error (too_long_raises, nonnumeric_raises, blank_chain_blank_seg_raises, no_silent_alteration), and every accepted "
              "container of the same text gives the same table (readlines_eq_split, container_independent). Correspondence: implementation vs Model vs Spec on generated records "
              "(every field widest/narrowest/blank, every name alignment, truncated lines, interleaved records, malformed stream, per-column probes) x the container forms."),
        note=BASE_NOTE + "Assumed: int()/float() on the modelled decimal grammar; SQLite stores what it is given; the hand model of the record loop is tied by the translator's shape check of the loop and by the correspondence run.",
        technique='Lean 4 theorems (model = spec for all strings) over translated tables/fallbacks + differential correspondence of the hand-modelled loop',
        design_ref='DESIGN.md 5/C01, 12'),
    'C02': dict(
        category='proof',
        text=("data2pdb's line assembly, _format_atomname and _format_xyz are translated from the current source on every run. Spec/C02.lean is a checker of the "
              "property's clauses. Theorems (Props/C02.lean, 17): every coordinate in range is written in exactly 8 columns (xyz_width) with three decimals in (-999.5, 9999.5) and "
              "never fewer than the property demands elsewhere (xyz_precision, xyz_precision_general), out-of-range raises (xyz_out_of_range_raises, line_out_of_range_raises); for every "
              "row that fits its fields the line is 80 columns with every attribute in its wwPDB columns incl. the name alignment (line_width, line_columns); parsing the exported line gives "
              "the row back within half a unit of the printed precision / 0.005 and identical text attributes (roundtrip, roundtrip_row_fits, int_roundtrip, float_roundtrip); re-export "
              "(reexport_ok, reexport_same_value_partial: exact same values except at the thresholds 999999.5 / -99999.5 where the second export has fewer decimals); a canonical ATOM record (decidable Spec.Canonical; "
              "all 1856 records of 3CRO are) is reproduced unchanged in columns 1-66 and 77-78 (canonical_reproduced, canonical_reproduced_whole); the exported file is one record per line, an appended export never glues "
              "records, and reading the file back gives the read-back rows in order (export_readlines, export_append_no_glue, file_roundtrip). "
              "Correspondence: every row is written into a real database, exported, re-parsed and re-exported; implementation = translated model text for text and the Lean checker accepts "
              "every line; every multiple of 0.0005 around all switch thresholds, range ends and powers of ten; bundled and synthetic canonical records reproduced."),
        note=BASE_NOTE + "Assumed: CPython's '{:.kf}' is correctly rounded (= Py.fmtFixed, compared on every sample); -0.0 not modelled.",
        technique='Lean 4 theorems over the translated formatter (width, columns, round trip for all rows that fit) + differential correspondence',
        design_ref='DESIGN.md 5/C02, 12'),
    'C09': dict(
        category='proof',
        text=("The zone writer's line format and read_zone's line parser are translated from the current source on every run. Theorems (Props/C09.lean): for every chain character other "
              "than '-'/blank and EVERY integer residue number the written line is read back as exactly that residue (read_write_zone, read_write_zone_file), the format itself "
              "(zone_line_format), and the recorded counterexample for chain '-' (known finding C09-F4, reported as KNOWN-FINDING). get_izone_rowID now calls read_zone (fix commit), so one "
              "reader serves every routine. Route agreement is proved on the models: the fast and the SQL routine of i-RMSD and of L-RMSD hand the kernel permutations "
              "of the same list, hence equal deviations, minima and fit-then-evaluate values, and return a value on the same inputs (fast_eq_sql_irmsd, fast_eq_sql_lrmsd); the zone computed in memory, written to an absent file or "
              "read back from that file gives the same outcome, also for the SQL i-RMSD routine (zone_sources_agree, irmsdSql_zone_file); Fnat fast = SQL is C08's fast_eq_sql_fnat and svd = quaternion C06's methods_agree. "
              "Correspondence: {fast,SQL} x {svd,quaternion} x {no zone, zone written, zone read} compared on generated complexes (equal chains, rank-flipping side chains, chain-size-flipping incomplete decoys, negative and "
              "4-digit numbering, mirror-image decoys, decoys listing chain B before chain A; file names reused across cases). Props/C09K.lean: read_zone translated as a whole function and proved equal to the model's reader on an existing "
              "file, FileNotFoundError otherwise (genr_read_zone_eq_model)."),
        note=BASE_NOTE + "On a MALFORMED zone line (neither 2 nor 4 dash pieces) that follows a good line the real loop reuses the previous line's variables, where model and translation report UnboundLocalError: outside every property (library-written files never contain such lines except for chain '-', C09-F4); counted as outside the model by the harness. Route theorems need single-character chain IDs other than '-'/blank (C09-F4) and the RawAgrees/Consistent conditions of C07; values compared after the library's own rounding.",
        technique='Lean 4 theorems (zone round trip for all chains/numbers over the translated reader/writer; route agreement as corollaries of the pairing theorems) + metamorphic route comparison',
        design_ref='DESIGN.md 5/C09, 12'),
    'C16': dict(
        category='proof',
        text=("Every routine is modelled as an effect program (a tree of file actions whose continuation is a function of what was observed; parsing, zones and scores uninterpreted), "
              "with a role per path and an interleaving semantics (one action of one task per step; a schedule is any list of task indices). Theorems (Props/C16.lean): decided on the "
              "effect list regenerated from the source on every run - no shell, no literal scratch name, zone files published by one os.replace (source_no_shell, source_no_literal_scratch, "
              "source_zone_published_by_replace); for every routine, option and branch the footprint is inputs + requested outputs + the zone cache + an own temp that is gone at the end "
              "(footprint_sound); unrelated files unchanged, inputs unchanged, value and zone left behind identical for any two directories agreeing on inputs and cache (frame_fs, inputs_unchanged, "
              "depends_on_args_only); for ANY number of computations in one directory and EVERY schedule each finished task has exactly its solo value or exception, incl. routines sharing one zone-file "
              "cache over one reference (noninterference, noninterference_every_schedule - rely/guarantee invariant by induction on the schedule; noninterference_zone_files instantiates zones as the lines of the translated writer/reader "
              "with the round trip discharged by C09); regressions: the old in-place writer and the old fixed-name "
              "scratch database interfere (inplace_write_counterexample, fixed_scratch_counterexample). Tie to the code: audit-hook effect traces of all 13 routines x options in empty and pre-seeded "
              "directories compared with the model's traces and judged by the Spec; directory snapshots; a deterministic scheduler enumerates interleavings of real runs at file-operation granularity "
              "(supporting exploration) and replays schedules in the Lean model."),
        note=BASE_NOTE + "Not proved: os.replace atomic, one audited call indivisible, SQLite's own I/O; a routine that only READS a shared zone file while another publishes it; chain identifiers '-'/blank excluded from the instantiated zone-file theorem (C09-F4).",
        technique='Lean 4 proof over all schedules of an effect-program model + effect-trace correspondence (audit hooks) + enumerated interleavings of real runs',
        design_ref='DESIGN.md 5/C16, 12'),
    'C20': dict(
        category='proof',
        text=("Store model: disk image per path, session with pending changes, rollback journal; DDL published at once when nothing is pending, DML pending until commit; paths abstract (the model "
              "cannot inspect a name). Theorems (Props/C20.lean): for every scenario and every crash point a fresh reader finds exactly the last committed state - no atoms or a complete table, never a part "
              "(crash_atomic, crash_never_partial, crash_atomic_after_open); close(keep) leaves exactly the table the object held (keep_leaves_table); close(remove) removes exactly that file and no other path "
              "is touched (remove_removes_exactly, victims_untouched); every action names only p or p-journal and none is a shell, decided on the effect list regenerated from the source "
              "(names_are_data; regression old_open_is_not_data). Tie to the code: scenarios create[,modify][,commit][,modify],close(keep|remove) read back by a stock sqlite3 connection; a kill before every "
              "statement/commit/close/remove/connect in forked children (fault enumeration), SIGKILL injected by strace inside SQLite's commit (thorough: every injection point of three scenarios); every file name "
              "of length <= 3 over the hostile alphabet (thorough; a seeded sample in quick) plus crafted names among hashed victim files with process spawning forbidden."),
        note=BASE_NOTE + "Trusted: SQLite's journal makes commit one atomic step and crash = rollback (exercised by the kills, not proved); the OS removes exactly the named file; open (remove old + connect) is one step in the model.",
        technique='Lean 4 proof over all crash points of a transactional store model + read-back correspondence + fault enumeration (process kills, strace injection) + hostile file names',
        design_ref='DESIGN.md 5/C20, 12'),
    'C06': dict(
        category='proof',
        text=("The entry expressions of the quaternion key matrix F and rotation U are translated from the current source on every run; the whole of get_rotation_matrix_Kabsh (guards, covariance, svd, determinant correction, product) is "
              "translated as a typed matrix program (Gen/Kernels.lean, svd a parameter) and PROVED equal to the hand model Model/Superpose.lean that the theorems are about (Props/C06K.lean: genk_get_rotation_matrix_Kabsh_eq_model, "
              "genk_kabsch_core_eq_model, genk_kabsch_proper, genk_kabsch_optimal), so the theorems hold of the source as it is now; the quaternion glue is pinned as text (Pins/D.lean); svd/eigh are contract parameters. Theorems (Props/C06.lean, 18, over any linearly ordered field unless marked R): under the SVD "
              "contract the Kabsch result is a proper rotation and maximises tr(R.A) over SO(3) with no rank assumption - planar, linear, single-point, identical and mirror-image sets included "
              "(kabsch_proper, kabsch_optimal); the residual identity and RMSD minimality over a point list (residual_expand, rmsd_minimal, rmsd_minimal_sqrt); a unit quaternion gives a proper rotation "
              "and tr(U.R) = q^T F q (quat_proper, quat_objective - any sign error in the 25 translated entries breaks it); under the eigenpair contract the quaternion result is optimal among unit "
              "quaternions, every proper rotation IS a unit quaternion's rotation (quat_surjective, R), hence optimal over SO(3) and both methods attain the same minimum (quat_optimal, methods_agree); "
              "certificate_sound; unequal sizes / uncentred input rejected iff the property says so (rejected_iff, rejected_iff_quaternion). Correspondence: NumPy's own factors handed to the model as exact "
              "rationals must reproduce the returned matrix; contracts of svd/eigh checked per case; exact-arithmetic certificate of properness and optimality in the Spec driver and an independent Horn optimum; "
              "families: generic, coplanar, collinear, single point, identical, mirror images, rank-deficient n=2,3, near-equal singular values, scales 0.01-1000."),
        note=BASE_NOTE + "Contracts of np.linalg.svd / eigh are hypotheses of the theorems, checked on every sampled case; float evaluation compared within 1e-9.",
        technique='Lean 4 proof of optimality over SO(3) for both kernels (translated entries, pinned glue) + exact-arithmetic certificate checking of real outputs',
        design_ref='DESIGN.md 5/C06, 12'),
    'C10': dict(
        category='proof',
        text=("Rodrigues, the three Euler matrices and their product are translated entry by entry from the current source on every run; rotate, rot_xyz_around_axis, rotation_euler, translation, rot_axis, rot_euler, rot_mat are "
              "translated as typed matrix programs (Gen/Kernels.lean) and proved equal to Model/Transform.lean (Props/C10K.lean, 12 genk_*_eq_model theorems). Theorems (Props/C10.lean): the Rodrigues matrix is a proper rotation fixing its axis and turning every perpendicular vector right-handedly by the angle "
              "(rodrigues_so3, rodrigues_fixes_axis, rodrigues_right_handed, *_real with Real.cos/sin); the Euler matrix is Rz.Ry.Rx of axis rotations (euler_is_zyx, euler_so3); rotation about a centre is an "
              "orientation-preserving isometry, inverse restores, the centroid is fixed so the default-centre inverse restores too, translations invert, finite compositions are rigid (rotate_isometry, "
              "rotate_preserves_orientation, rotate_inverse, centroid_fixed, rotate_inverse_default, translate_inverse, composition_rigid); random axes are unit, angles in [0,2pi) (random_axis_unit, "
              "random_angle_range); at database level the modelled code equals the Spec: each selected row gets the isometry applied to ITS OWN coordinates, every other row and attribute, the row count and order "
              "are unchanged, for single transforms and sequences (transform_eq_spec, moves_exactly_selection, sequence_frame, sequence_eq_spec). Correspondence: real databases through translation/rot_axis/"
              "rot_euler/rot_mat with all selection kinds incl. unsorted/reversed/concatenated rowID lists, angles in [-4pi,4pi], compositions, inverse, seeds."),
        note=BASE_NOTE + "np.cos/np.sin values are handed to the model as observed doubles; c^2+s^2=1 holds to 1e-16 only (float gap); NumPy RNG reproducibility is checked by running twice.",
        technique='Lean 4 algebraic proofs over the translated matrices + list-of-rows refinement for selections + differential correspondence on real databases',
        design_ref='DESIGN.md 5/C10, 12'),
    'C18': dict(
        category='proof',
        text=("_align_along_axis and get_rotation_angle are translated from the current source (Gen/Kernels.lean; trig and pi as parameters) and proved equal to Model/Align.lean (Props/C18K.lean: "
              "genk__align_along_axis_eq_model, _real, genk_get_rotation_angle_eq_model); pca is pinned as text. Theorems (Props/C18.lean): "
              "for x, y and z the composed rotation read from the source's steps maps a vector with spherical angles (phi, theta) onto its length times the requested axis (align_maps_vector, align_maps_vector_axis, "
              "align_maps_vector_real with Real.cos/sin and pi identities; the spherical contract is derived from Complex.arg / Real.arccos: spherical_contract_holds); the covariance is equivariant and the extreme "
              "eigenvector with a strict gap ends up parallel to the axis / normal to the plane (cov_equivariant, principal_axis_aligned, principal_axis_aligned_min); the whole structure undergoes one rigid rotation "
              "about its centroid and only coordinates change (single_rigid_rotation_about_centroid, only_xyz_changes, align_mats_rotations). Correspondence: point clouds with eigenvalue-gap ratio >= 1.05 on a spherical "
              "grid of orientations x {x,y,z}/{xy,xz,yz} x selections x export on/off; principal directions recomputed with eigh; parallelism within 1e-6; one file iff export."),
        note=BASE_NOTE + "eigh/arctan2/arccos are contracts; export effects sampled.",
        technique='Lean 4 trigonometric/algebraic proof over the pinned rotation steps + differential correspondence on oriented point clouds',
        design_ref='DESIGN.md 5/C18, 12'),
    'C08': dict(
        category='proof',
        text=("Model/Fnat.lean follows both Fnat routes and compute_clashes on top of the contact model (Model/Contacts.lean); cutoffs and options come from the translated constants. Theorems (Props/C08.lean): "
              "both routes equal the definition - preserved reference residue contacts over reference contacts, a contact whose residue is absent (or has no heavy atom) counting as not preserved - for every cutoff, "
              "with ZeroDivisionError exactly when there is no reference contact (fnat_fast_eq_def, fnat_sql_eq_def, fast_eq_sql_fnat, absent_residue_not_preserved), under explicit decidable side conditions the "
              "proofs forced (two chains, consistent residue names, raw columns agree with the parsed table); the value lies in [0,1] and is 1 for decoy = reference (fnat_in_unit_interval, fnat_self_one); the clash count "
              "equals the number of inter-chain heavy-atom pairs closer than 3 A when no pair is at exactly 3 A (clashes_eq_def_partial) and differs on a concrete pair at exactly 3 A "
              "(clashes_boundary_counterexample = known finding C08-F2, printed as KNOWN-FINDING). Correspondence: generated complexes with hydrogens, missing residues on either side, hydrogen-only residues, "
              "blank names, chain IDs other than A/B, cutoffs 3-8, exact at-cutoff lattice distances; several cutoffs on the same reference in one process. Props/C08K.lean: compute_residue_pairs_ref (save_file=False) is translated and proved "
              "equal to the model (genr_compute_residue_pairs_ref_eq_model); compute_fnat_fast is translated and compared with the real code through the driver (no equality theorem with Model.Fnat.fnatFast yet: tied by correspondence)."),
        note=BASE_NOTE + "Float distance decision = exact decision outside the proved margin 8u c^2 (Props/C08K.lean: contact_decision_eq, residue_pair_decision_eq for np.min(...) <= cutoff of compute_fnat_fast, strict variants; abstract IEEE rounding contract); generated distances are >= 1e-6 off a cutoff or exactly on it.",
        technique='Lean 4 proof model = definition for both routes + differential correspondence; known finding C08-F2',
        design_ref='DESIGN.md 5/C08, 12'),
    'C13': dict(
        category='proof',
        text=("Model/SuperposeDb.lean follows superpose(): selections, identity comparison, positional pairing or the text-level intersection (export, re-parse, join), superpose_selection applied to all mobile rows, "
              "write-back, optional export; superpose_selection and get_trans_vect are translated (Gen/Kernels.lean) and proved equal to the model (Props/C13K.lean); the kernel's rotation is a parameter. Theorems (Props/C13.lean): every new mobile coordinate is R.old + t for one (R,t) (one_rigid_motion); row count, order, all non-coordinate "
              "attributes of the mobile and the whole target are unchanged (only_mobile_xyz_changes); the pairs handed to the kernel are exactly the selected atoms the two structures share, matched by identity, on both "
              "routes (matched_pairs_are_shared_atoms, matched_pairs_are_shared_atoms_text); with an optimal kernel the RMSD over them is minimal over all rigid motions (optimal_on_matched, optimal_on_shared - the kernel "
              "hypothesis is what C06 proves); a rigidly displaced copy lands back (displaced_copy_lands_back, rank >= 2); no file unless export (no_file_unless_export); name + only_backbone rejected. Correspondence: "
              "targets x mobiles by jitter, displacement, deletions on either side (equal and unequal sizes, same size but different atoms) x selections x methods x export; rigidity fitted on 4 atoms and verified on all; "
              "matched RMSD against an independent optimum."),
        note=BASE_NOTE + "KernelOptimal is a hypothesis here (discharged by C06's theorems under the svd/eigh contracts); the text route is at 3-decimal precision (tolerance 2e-3).",
        technique='Lean 4 proof of rigidity/frame/pairing over a data-flow model with the kernel as parameter + differential correspondence with an independent optimiser',
        design_ref='DESIGN.md 5/C13, 12'),
    'C05': dict(
        category='proof',
        text=("Model/Contacts.lean follows get_contact_atoms step by step (chain list, itertools.combinations, exact d^2 <= c^2 test, hydrogen skip, backbone filter on both sides, accumulation of the pair map and "
              "per-chain lists, sorted(set())); backbone names and the default cutoff come from the translated constants; Spec/C05.lean is the set-theoretic definition. Theorems (Props/C05.lean, 20) for EVERY structure, "
              "cutoff and option combination: for two chains the per-chain sets and the pair map equal the Spec list for list (contacts_two_chain, contacts_two_chain_returned); for all chains the returned dict is the "
              "union over the other chains and the pair map holds every contacting pair of two different chains exactly once under the atom whose chain sorts first (contacts_all_chains, IsAllChainsPairMap); swapping the "
              "chains transposes the pair map and leaves the sets unchanged (swap_transposes, swap_same_sets); an unknown chain is rejected (unknown_chain_rejected); meaning theorems spell the Spec out index by index; "
              "backbone_names pins the source's list. Correspondence: 2-5 chains on a quarter-Angstrom lattice with Pythagorean offsets hitting cutoffs 3, 5, 7, 8.5, 9 EXACTLY and just inside/outside, hydrogens, "
              "blank names, non-backbone names, all 2^4 option combinations x all ordered chain pairs x allchains, plus 3CRO (3CRO_H, 1AK4 in the thorough tier). "
              "Binary64 (Props/C05K.lean, Proofs/FloatMargin.lean): for ANY rounding operator with the IEEE round-to-nearest laws (monotone, exact on representables, relative error 2^-53; RoundOK - proved of the executable "
              "Py.toDouble on the rationals), the library's np.sqrt(np.sum((q-p)**2,1)) <= cutoff evaluated in NumPy's order decides exactly as d^2 <= c^2 whenever |d^2-c^2| > 8u c^2 (contact_decision_eq); for PDB text "
              "coordinates the margin is 2^-53 c (8c+1e5) < 1e-10 A^2 (pdb_decision_eq), so for three-decimal coordinates and a decimal cutoff the only undecided case is the squared text distance EQUAL to the cutoff squared "
              "(pdb_lattice_decision_eq); the harness samples the theorem at its edge (8u..48u) and the NumPy evaluation order bit for bit. "
              "TRANSLATED LOOP (py/translate_ext_contacts.py -> Gen/Contacts.lean, runtime Py/Dict.lean): get_contact_atoms, _extend_contact_to_residue and get_contact_residues are translated from the AST on every run "
              "(statement order and names kept, loops as folds, self.get as the C03 selection Tbl.select, the distance test as one primitive) and PROVED equal to the hand model for every table and argument combination "
              "(genc_get_contact_atoms_eq_model: same dictionaries, key order, lists and exceptions; genc_extend_contact_to_residue_eq_model for every iteration order of list(set(..)); select_*_is_c03); the driver answers with hand "
              "model AND generated function, and the harness requires implementation = hand model = generated."),
        note=BASE_NOTE + "Float distance decision = exact decision: now a theorem outside the margin 8u c^2 (abstract IEEE rounding contract, no overflow/underflow); inside the margin generated distances are exactly on a cutoff; SQLite returns rows in rowid order; single-model files.",
        technique='Lean 4 proof model = set-theoretic spec for all inputs + differential correspondence on at-cutoff lattices',
        design_ref='DESIGN.md 5/C05, 12'),
    'C14': dict(
        category='proof',
        text=("Same model file; Spec/C14.lean defines residues as projections and extension as closure. Theorems (Props/C14.lean, 12) for all arguments: contact residues are exactly the distinct (chain, number, name) "
              "triples of the contact atoms of the very get_contact_atoms call the routine makes, the residue pair map is exactly the projection of the atom pair map (residues_are_projection, "
              "residue_pairs_are_projection), extension returns exactly all atoms (all backbone atoms in backbone mode) of every residue owning a contact atom - nothing missing, nothing foreign; residues sharing a number "
              "but differing in name or chain are distinct (extension_is_closure, extension_of_call, extension_leaves_pairs, spec_extension_meaning), plus two-chain corollaries against the C05 Spec and rejection of unknown "
              "chains. Correspondence: the C05 generator + residues sharing numbers across chains and names, negative numbers, all option combinations incl. extend_to_residue. TRANSLATED (Props/C14K.lean): _extend_contact_to_residue and "
              "get_contact_residues are translated from the AST on every run (Gen/Contacts.lean) and proved equal to the hand model (genc_extend_contact_to_residue_eq_model for every iteration order of list(set(..)), genc_extend_is_closure, "
              "genc_get_contact_residues_eq_model)."),
        note=BASE_NOTE + "As C05 (the float margin theorems are re-exported in Props/C14K.lean).",
        technique='Lean 4 proof (projection/closure for all inputs) + differential correspondence',
        design_ref='DESIGN.md 5/C14, 12'),
    'C03': dict(
        category='proof',
        text=("Model/Table.lean follows pdb2sqlcore.get step by step (column/key validation, no_ prefix, scalar vs list, rowID +1/-1 shifts, IN lists joined by AND, SQLite comparison affinity, flattening, the chunked "
              "path, per-model dispatch, tablename) with limits from the translated constants; Spec/C03.lean is the row-by-row evaluator of the property. Theorems (Props/C03.lean) for every table and every conjunction: "
              "Model.get = filter of the enumerated table by 'every condition holds', projected on the requested attributes in the requested order, flattened for one attribute (get_eq_filter, get_eq_spec, selected_exact, "
              "get_nodup, get_in_input_order, get_columns_in_requested_order); rowID is the position as attribute and as condition (rowID_means_position, rowID_as_condition); unknown attribute/condition names are rejected "
              "(unknown_column_rejected, unknown_key_rejected); get_residues/get_chains (get_residues_eq, get_chains_eq). Correspondence: tables of 0-40 rows from a small value pool, every subset of a condition pool up to "
              "size 4 (bounded-exhaustive) + random conjunctions over every attribute type, scalars/lists, present/absent values, string forms of numbers, negations, every ordered column list up to 4 and '*'. "
              "SQL TEXT TIE (Props/C03K.lean, Gen/Sql.lean regenerated every run by py/translate_ext_sql.py, Model/MicroSql.lean): the statements of get / _format_get_output that build the query text and the bound values are "
              "TRANSLATED; MicroSql is a tokenizer + parser + evaluator for exactly the statement grammar the library emits (the SQLite contract). Theorems: closed forms of the translated units (get_cond_nf, get_query_nf, "
              "format_get_output_nf), the emitted text parses to SELECT cols FROM t WHERE exactly the keyword conditions (parse_selectText), and Model.get = translated builder -> MicroSql -> translated _format_get_output for every "
              "database, column string and keyword list on the non-chunked path, error branches included (get_eq_sql, getF_eq_sql): the hand model is now a CONSEQUENCE of the source's text plus the contract. Correspondence for the "
              "tie: the SQL text and bound values the real code sends to SQLite (recorded by a proxy around db.c) = the translated builder's, and MicroSql = sqlite3 on every recorded statement."),
        note=BASE_NOTE + "SQLite's comparison/storage affinity = Model.sqlEq/storeVal and the meaning of the emitted statements = MicroSql are contracts, sampled against sqlite3 on every recorded statement, not proved; column/key validation and per-model dispatch stay hand-modelled; duplicate/case-variant column spellings are outside the quantifier (model-only).",
        technique='Lean 4 refinement proof (translated SQL text + MicroSql contract = modelled get = row-by-row spec for all tables and conjunctions) + bounded-exhaustive differential correspondence',
        design_ref='DESIGN.md 5/C03, 12'),
    'C04': dict(
        category='proof',
        text=("Model.step follows update / update_column / update_xyz / add_column / _fix_chainID (validate, get('rowID'), shape checks before anything is written, sequential UPDATE ... WHERE rowID=?). Theorems (Props/C04.lean): "
              "update writes vals[i][j] to cell (i-th selected row, j-th attribute) and nothing else (update_spec, update_selection_is_spec, ith_value_on_ith_selected, unselected_unchanged); any shape mismatch - empty values, a "
              "value row of the wrong length incl. ragged rows, a row count different from the selection - leaves the state unchanged (update_shape_error); for ALL histories tables, names, row counts and order are kept and "
              "every cell not addressed by some step is unchanged (frame, update_frame_step - induction over the operation list); add_column_spec, stored_equal_in_value; chain relabelling equals the rank-of-sorted-IDs spec and "
              "touches nothing else (fix_chainID_spec, fix_chainID_frame). Correspondence: histories of 1-12 operations with get('*') and get_colnames() after every step; value carriers list / tuple / float64, float32, int64, "
              "int32 arrays / NumPy scalars / str arrays (read back equal in value; decimal values such as 1.1 that differ between float32 and float64); later steps reuse the selection keywords of earlier ones (stale selections); "
              "mismatching shapes compared before/after. SQL TEXT TIE (Props/C04K.lean): the UPDATE / ALTER statement texts and the data rows of update, update_column, add_column and _to_sql_value are TRANSLATED on every run "
              "(Gen/Sql.lean) and run by MicroSql (the SQLite contract for the emitted grammar): update_eq_sql, updateColumn_eq_sql, addColumn_eq_sql state that the hand model's step IS the translated text executed by MicroSql, "
              "prepare and per-row errors included; the texts/rows the real code sends (recorded) are compared with the translated builders', and MicroSql's state with the state sqlite3 leaves."),
        note=BASE_NOTE + "Carrier independence is a harness dimension (sqlite3 binding of each carrier is sampled); update_column follows zip semantics (accepted behaviour, relied upon by the repository's own tests); updating the rowID column is outside the quantifier.",
        technique='Lean 4 proof over all histories (frame invariant by induction) of a list-of-records model + differential correspondence on operation sequences',
        design_ref='DESIGN.md 5/C04, 12'),
    'C17': dict(
        category='proof',
        text=("The same Model.get including the chunked path of the (repaired) source with its recursion bounded by fuel that is proved never to run out. Theorems (Props/C17.lean): for EVERY list length, positive or negated, "
              "with or without duplicates, on any table of a multi-table database and for multi-model files, Model.get = the Spec answer, or the documented tooManyVars error exactly when the conditions together exceed the "
              "limit (get_any_length, get_any_length_rows); the chunking lemma - union (intersection for negated) of per-chunk selections = selection of the whole list (chunking); the addressed table is respected "
              "(table_name_respected); update_any_length; limits_are_950_999 pins the translated constants. Correspondence: 1-3 structures up to 4000 atoms, lengths {0,1,2,949,950,951,998,999,1000,1899,1900,1901,2851}+random, "
              "positive/negated, duplicates within/across chunks, ascending/descending/shuffled, alone and combined (incl. the combined-limit error), every table name, get/update/get_all, under a lowered recursion limit. "
              "SQL TEXT TIE (Props/C17K.lean): one turn of the chunked path's final loop is translated; rows_step_eq_model (its statement means the listed rows in table order), chunks_getElem, fetchRows_turn, chunked_iff (the "
              "translated loop takes the chunked branch exactly when the model finds an over-long list); the complete statement sequence of chunked calls is compared with the recorded one."),
        note=BASE_NOTE + "SQLite's variable limit itself is not exercised (the library's own 950/999 limits are).",
        technique='Lean 4 proof for all list lengths (chunking lemma, fuel sufficiency) + differential correspondence at and around the limits',
        design_ref='DESIGN.md 5/C17, 12'),
    'C15': dict(
        category='proof',
        text=("Model/TableWorld.lean: a world is a list of private tables; sub-selection, interface(db) and many2sql([db,...]) derive roundtrip(selected rows) where the text round trip is a parameter (C02 proves its properties). "
              "Theorems (Props/C15.lean): the new object equals the round trip of the selected rows of the source AT THAT MOMENT, all earlier modifications included; an empty selection raises and creates nothing "
              "(export_is_selection, snapshot), and with the concrete text round trip of C02 the derived rows are the read-back of the selected rows: identical text/integer attributes, coordinates within half a unit "
              "of the printed precision, occupancy/B-factor within 0.005, deriving again changes nothing (roundtrip_is_readBack, snapshot_text_precision, derive_again_changes_nothing); every later step on one object leaves every other object unchanged, for all histories (independence_step, independence, modify_is_own_step, derived_and_source_independent). "
              "What makes independence true of the code - one private SQLite connection per object - is what the correspondence exercises: histories of 5-25 steps over a growing family of <= 6 objects interleaving "
              "modifications and the three derivations, get('*') of EVERY live object compared with its model table after EVERY step."),
        note=BASE_NOTE + "Independence holds in the model by construction; its truth for the code rests on the correspondence histories.",
        technique='Lean 4 proof by induction over histories of a world-of-tables model + differential correspondence after every step',
        design_ref='DESIGN.md 5/C15, 12'),
    'C19': dict(
        category='proof',
        text=("Model/TableJoin.lean: INNER JOIN ... ON every pair of tables agreeing on every match key = nested-loop join; per-table slicing of the joined tuple. Theorems (Props/C19.lean): every joined row carries the same "
              "key in all components (join_aligned); component k of a joined row is a row of structure k (own_values); a key is in the output iff it occurs in every structure (join_sound_complete); with unique keys each common "
              "key appears exactly once (join_once); intersection_is_sliced_join, per_table_query; the intersected database holds one table per structure whose k-th table is the round trip of component k of the join (intersect_tables, intersect_tables_text); "
              "default_match_is_the_source's pins the translated default. Correspondence: 2-4 structures from a common parent by independent "
              "deletions, coordinate changes, point mutations and record permutations x EVERY match-key subset (through both get_intersection and intersect(match=...)) x attribute lists, compared as sorted lists of aligned "
              "tuples (SQL row order is never relied upon); every table of the intersected database read back; user-chosen table names in non-alphabetical order; per-structure queries and sub-selections (get_all, db(**sel)), also with "
              "value lists beyond 950. SQL TEXT TIE (Props/C19K.lean): get_intersection's statement builder (field list, INNER JOIN, ON conditions, trims) and the cutting of the joined rows are TRANSLATED on every run (Gen/Sql.lean); MicroSql parses and "
              "evaluates the join; getIntersection_eq_sql: Model.getIntersection = translated text -> MicroSql -> translated cutting for every database, column string and match list in the domain (errors inside the equation); the recorded statement "
              "text = the translated builder's, MicroSql = sqlite3 on it (as sorted rows)."),
        note=BASE_NOTE + "INNER JOIN = nested loop (MicroSql's join) is a contract, sampled against sqlite3 on every recorded statement; the order of joined rows is unspecified in SQLite and never relied upon; intersect's data2pdb / re-parse step and the many2sql constructor stay hand-modelled.",
        technique='Lean 4 proof over a nested-loop join model + differential correspondence for every match-key subset',
        design_ref='DESIGN.md 5/C19, 12'),
    'C07': dict(
        category='proof',
        text=("Model/Rmsd*.lean follow the four RMSD routines' data flow (raw-column readers on List Char, zones, check_residues, in-zone/not-in-zone split, identity-keyed intersections, key-ordered coordinates, first-match "
              "lookup, long/short chain rule) and return the outcome class and the ordered pair lists handed to the kernel; the value is the radicand through Model/Superpose; get_rmsd's radicand is translated and proved equal to the model's (Props/C07K.lean). Theorems (Props/C07.lean), under decidable "
              "Consistent / RawAgrees hypotheses checked on every case: each routine hands the kernel a permutation of the definition's pairs - common backbone atoms of reference interface residues (i-RMSD), of the longer / "
              "shorter chain of the reference (L-RMSD) - or raises exactly when the definition's list is empty or enforcement demands it (irmsd_pairs_fast/_sql, lrmsd_pairs_fast/_sql); the msd depends only on the multiset of "
              "pairs (rmsd_perm_invariant); every reordering of either file gives the same multiset or an explicit error (paired_by_identity_not_position); missing atoms are left out / reported when enforced; the reported "
              "radicand is the minimum over all rigid motions (centroid_optimal_translation, irmsd_is_min, lrmsd_is_fit_then_eval) with the kernel hypothesis discharged from C06 (kernel_optimal_from_C06); identical "
              "structures score 0 (identical_scores_zero, L-RMSD partial without rank >= 2); the raw-column readers are PROVED to see the parsed table for files that parse and whose chain column is non-blank "
              "(raw_agrees_of_parse, pairs_of_parsed_files), and the kernel hypothesis is discharged for both methods (kernel_optimal_from_C06_quaternion, irmsd_is_min_both_methods). Correspondence: generated complexes and decoys (jitter, rigid moves, deletions, interleaving, negative/4-digit numbering), cutoffs 5-12, "
              "both routines x both methods x enforcement; values recomputed from the model's and the Spec's pairs with an independent optimiser (0.0005 + 1e-9); file names reused across cases and an other-cutoff call on the same object first. "
              "TRANSLATED ROUTES (py/translate_ext_rmsd.py -> Gen/Rmsd.lean, Props/C07K.lean): the raw-line readers get_xyz_zone_backbone, get_data_zone_backbone, _get_xyz, read_zone, compute_lzone, compute_izone, compute_lrmsd_fast and "
              "compute_irmsd_fast are translated from the AST on every run (file system, parser, contact routine and rotation kernel as parameters) and proved against the hand models: genr_get_*_zone_backbone_eq_model, genr_get_xyz_eq_model (returned "
              "values, errors included), genr_compute_lzone_eq_model, genr_compute_izone_eq_model (zone and written file), and the fast routes as a stage decomposition zone stage -> the model's own list functions -> translated kernel "
              "(genr_compute_lrmsd_fast_stages, genr_compute_irmsd_fast_stages, *_model_stages); driver ops run the generated readers/zones and the harness compares them with the real code."),
        note=BASE_NOTE + "Float evaluation of the kernel and round(.,3) sampled; RawAgrees is a checked hypothesis; the check=False positional path is modelled and sampled, not claimed.",
        technique='Lean 4 proof that each route pairs exactly the definition\'s atoms (multiset equality) + minimality via C06 + differential correspondence with an independent optimiser',
        design_ref='DESIGN.md 5/C07, 12'),
    'C11': dict(
        category='proof',
        text=("Metamorphic theorems about the models and specs of C05/C07/C08 (Props/C11.lean): a rigid motion of the decoy (or of both structures) moves the pair lists pointwise and leaves the minimum and fit-then-eval "
              "values unchanged (rigid_invariant_pairs, rigid_invariant_value, rigid_invariant_models); contacts, Fnat and the clash count depend on distances only (isometry_invariant_contacts); the readers' slices avoid "
              "columns 7-11, 55-66, 77-78 and no model output changes when only serial, occupancy, B-factor or element change (ignores_serial_occ_temp_element_text, ignores_serial_occ_temp_element, "
              "ignored_columns_are_the_documented_ones); adding a constant to all residue numbers of both structures leaves pairs, Fnat and clashes unchanged (renumber_invariant); added hydrogens are ignored by Fnat and "
              "clashes (hydrogens_ignored); any reordering gives the same value or an explicit error (permutation_same_or_error). Correspondence on the real routines: the 24 lattice rotations + millesimal translations exactly "
              "(identical values for all scores incl. DockQ/CAPRI), arbitrary motions within 0.002, column edits, renumbering incl. 4-digit and negative numbers, added hydrogens, four permutation classes x both enforcement settings; exact translations "
              "by thousands of Angstrom inside the PDB columns. Props/C11K.lean re-exports the stage decomposition of the translated fast routes (the metamorphic theorems act on the model's list stage)."),
        note=BASE_NOTE + "Pairs whose distances are within 0.01 A of a cutoff are regenerated and counted; DockQ/CAPRI invariance is harness-side.",
        technique='Lean 4 metamorphic theorems over the score models + metamorphic runs of the real routines (exact lattice motions)',
        design_ref='DESIGN.md 5/C11, 12'),
}

# round 4 (DESIGN 12.9): whole-function translations proved equal to the hand models; appended to the level text of each property
ROUND4 = {
    'C01': "Round 4 (Gen/ParseLoop.lean, Props/C01K.lean): the WHOLE `_create_table` (table-name clean-up, CREATE/INSERT texts, record loop with its column loop) and `read_pdb` (seven input forms, file system as a parameter) are translated statement by statement on every run and proved equal to the hand model for every list of lines and every input form (create_table_for_line_nf, genp_create_table_rows_eq_model, create_table_nf, genp_read_pdb_eq_model).",
    'C02': "Round 4 (Gen/Fx.lean, Props/C02K.lean): `sql2pdb`, `exportpdb` and the accumulation of `data2pdb` are translated as effect programs and proved to write exactly Model.exportText / appendText of the translated lines (genf_sql2pdb_eq_model, genf_exportpdb_text).",
    'C03': "Round 4 (Gen/Get.lean, Props/C03K2.lean): `get` is translated WHOLE (type check, column validation, per-model dispatch, SELECT-EXISTS key probes, keyword loop, chunked branch with its recursion, combined-limit error) and get_eq_model proves GenG.get = Model.get for every database, column string, keyword list and list length; get_xyz/get_residues/get_chains likewise.",
    'C04': "Round 4 (Gen/Get.lean, Gen/ParseLoop.lean; Props/C04K2.lean, C04K3.lean): update_column, add_column, update_xyz and `_fix_chainID` are translated whole and proved equal to the hand model (update_column_eq_model, add_column_eq_model, genp_fix_chainID_eq_model); `update` with all shape checks before any modification (update_eq_model_partial / update_eq_model).",
    'C06': "Round 4 (Gen/Sup.lean, Props/C06K2.lean): `get_rotation_matrix_quaternion` is translated whole (eigh a parameter) and the method dispatch too; the generated kernel equals the model (gensup_quaternion_eq_model, gensup_get_rotation_matrix_eq_model) and inherits properness and optimality (gensup_quaternion_proper, gensup_quaternion_optimal).",
    'C07': "Round 4 (Gen/Sim.lean, Props/C07K2.lean): check_residues, get_identical_atoms, get_izone_rowID and the two SQL RMSD routes are translated whole; equalities with the hand model resp. stage decompositions around the kernel (gens_check_residues_eq_model, gens_get_identical_atoms_*, gens_get_izone_rowID_eq_model, gens_compute_lrmsd_pdb2sql_stages, ...).",
    'C08': "Round 4 (Gen/Sim.lean, Props/C08K2.lean): compute_fnat_pdb2sql and compute_clashes are translated whole and proved equal to the hand model (gens_fnat_pdb2sql_core, gens_compute_clashes_eq_model - the code's <= at 3 A is kept: C08-F2).",
    'C13': "Round 4 (Gen/Sup.lean, Props/C13K2.lean): the whole body of `superpose()` and `superpose.get_intersection` are translated and proved equal to the hand model - same updated table, same exception, same files written (gensup_superpose_eq_model, gensup_get_intersection_eq_model).",
    'C15': "Round 4 (Gen/ParseLoop.lean, Gen/Many.lean; Props/C15K.lean, C15K2.lean): pdb2sql.__call__, many2sql.__init__/__call__/convert_input and interface.__init__ are translated whole and proved equal to Model.derive (genp_call_eq_parse, init_eq_model, call_eq_model, interface_init_eq_model, call_tables_are_selections).",
    'C16': "Round 4 (Gen/Fx.lean, Py/Fx.lean; Props/C16K.lean): `_write_zone`, the file parts of read_zone / the zone branches / get_izone_rowID, the save and export branches and exportpdb are translated as effect PROGRAMS (free monad over the effect signature) and proved equal to the programs of Model/Effects.lean (genf_write_zone_eq_model, genf_*_zone_eq_model, genf_exportpdb_eq_model, ...).",
    'C17': "Round 4 (Gen/Get.lean, Props/C17K2.lean): the chunked branch of `get` is inside get_eq_model (GenG.get = Model.get for every list length).",
    'C18': "Round 4 (Gen/Align.lean, Props/C18K2.lean): align, align_interface, align_pca_vect, export_aligned, pca, get_max/min_pca_vect are translated whole and proved equal to the hand model (gena_align_eq_model, gena_align_interface_eq_model); when the generated call returns, the table underwent one proper rotation about the centroid, only coordinates changed and files appear exactly when export is requested (gena_align_returns).",
    'C19': "Round 4 (Gen/Many.lean, Props/C19K2.lean): many2sql.intersect and get_all are translated whole and proved equal to the hand model (intersect_eq_model, get_all_eq_model, intersect_tables_gen).",
    'C20': "Round 4 (Gen/Fx.lean, Props/C20K.lean): `_create_sql`, `_commit`, `_close` and the ordering in `__init__` are translated as effect programs and proved equal to the store model's steps; a scenario of TRANSLATED programs equals Model.C20.run, hence crash atomicity and names-are-data hold of the translated code (genf_runT_eq_run, genf_crash_atomic, genf_names_are_data).",
}
for _pid, _t in ROUND4.items():
    CLAIMED[_pid]['text'] = CLAIMED[_pid]['text'] + ' ' + _t
    if 'whole-function translation' not in CLAIMED[_pid]['technique']:
        CLAIMED[_pid]['technique'] += ' + whole-function translation proved equal to the hand model (round 4)'

checks = []
for pid in ids:
    if pid in CLAIMED:
        c = CLAIMED[pid]
        checks.append({
            'property_id': pid,
            'quick_cmd': f'./check {pid} --tier quick',
            'thorough_cmd': f'./check {pid} --tier thorough',
            'evidence_file': f'evidence/{pid}.json',
            'replay_cmd_template': f'./check {pid} --replay {{path}}',
            'engine': 'lean4-proof+correspondence',
            'level_claimed': {'category': c['category'], 'text': c['text'], 'design_ref': c['design_ref']},
            'level_note': c['note'],
            'technique': c['technique'],
        })

manifest = {
    'version': 1,
    'setup_cmd': 'cd lean && lake build',
    'hooks': {
        'guard': 'PDB2SQL_VERIF',
        'enable': 'no repository hooks are used: all instrumentation (audit hooks, sqlite3 factory wrappers, syscall fault injection) lives in the harness under /verif/py',
        'baseline_off_cmd': 'cd /repo && /venv/bin/python -m pytest -ra -q -p no:cacheprovider --timeout=900 --continue-on-collection-errors',
        'source_commits': [],
        'add_only': True,
    },
    'engines': [
        {'name': 'lean4-proof+correspondence', 'path': 'lean/ (Lean 4 project PdbVerif) + py/ (translator, harness, check driver)',
         'serves_properties': sorted(CLAIMED),
         'kind_free_text': 'machine-checked proof in Lean 4 about a model regenerated from the source (py/translate.py) or hand-written and tied by a differential correspondence run'}],
    'checks': checks,
    'not_applicable': [{'property_id': p, 'reason': 'not claimed'}
                       for p in ids if p not in CLAIMED],
    'notes': 'See DESIGN.md. Fix commits made in /repo are listed in known_findings.json ("fixed:" entries).',
}
json.dump(manifest, open(os.path.join(VERIF, 'MANIFEST.json'), 'w'), indent=1)
print('claimed', sorted(CLAIMED), 'not_applicable', len(manifest['not_applicable']))
