#!/usr/bin/env python3
"""Regenerate /verif/MANIFEST.json from the table below (run after adding a property check)."""
import json, os

VERIF = os.path.dirname(os.path.dirname(os.path.abspath(__file__)))
props = [json.loads(l) for l in open(os.path.join(VERIF, 'properties.jsonl'))]
ids = [p['id'] for p in props]

BASE_NOTE = ("Trusted: Lean 4.33 kernel; axioms propext/Classical.choice/Quot.sound only (audited every run); Mathlib as installed; "
             "the translator py/translate.py and the correspondence harness + Lean JSON drivers; CPython int/float/format/round, "
             "NumPy (svd/eig/det/mean/dot/trig) and SQLite are modelled as contracts and compared on samples; IEEE-754 rounding of "
             "the numeric kernels is sampled, not proved. ")

# id -> dict(category, text, note, technique, design_ref)
CLAIMED = {
    'C12': dict(
        category='proof',
        text=("compute_CapriClass and compute_DockQScore are translated from the current source to Lean on every run (Gen/Score.lean). "
              "Theorems (Props/C12.lean), for every input over any linear order / every rational: the cascade equals the published table "
              "criterion by criterion (capri_eq_table), is total with ordered thresholds (capri_total), equals the best class whose requirement "
              "holds (capri_eq_best_class, capri_concrete for the literals in the source), never worsens when a measure improves (capri_monotone); "
              "DockQ equals its formula (dockq_formula), lies in [0,1] (dockq_range), is 1 for a perfect model (dockq_perfect), is monotone "
              "(dockq_monotone) -- range and monotonicity for every rounding function that is monotone and exact on 0..3, i.e. for the "
              "floating-point evaluation order in the source. Correspondence: all 343 threshold cells (exhaustive), the doubles adjacent to "
              "every threshold, random points; DockQ compared bit-exactly against the translated formula evaluated with binary64 rounding."),
        note=BASE_NOTE + "Assumed: IEEE round-to-nearest is monotone and exact on 0,1,2,3 (FlOK); C pow(x,2.0) = correctly rounded x*x.",
        technique='Lean 4 theorems over the translated source + exhaustive threshold-cell correspondence',
        design_ref='DESIGN.md 5/C12'),
    'C01': dict(
        category='translation_validation',
        text=("The record loop's tables and fallbacks (col, delimiter, blank-field defaults, ATOM/ENDMDL prefixes, _format_pdb_linelength, _get_chainID, "
              "_get_element) are translated from the current source on every run; Model/Parse.lean follows the loop and read_pdb's seven input forms; "
              "Spec/C01.lean is the property's own column table and rules. Proved so far (Props/C01.lean): the source's column table IS the wwPDB table of the "
              "statement (delimiter_is_wwpdb), column order/types, the documented defaults, the record prefixes. Correspondence: implementation vs Model vs Spec on "
              "generated records (every field widest/narrowest/blank, every name alignment, non-blank altLoc/iCode, truncated lines, interleaved other records, "
              "malformed stream, per-column probes) x the 7 container forms. The per-record equality Model = Spec for all strings is being proved; until it is "
              "in Props/C01.lean the claim is translation validation, not proof."),
        note=BASE_NOTE + "Assumed: int()/float() on the modelled decimal grammar; SQLite stores what it is given.",
        technique='translated tables + hand model validated differentially against the code and the Lean spec; Lean theorems on the tables',
        design_ref='DESIGN.md 5/C01'),
    'C02': dict(
        category='translation_validation',
        text=("data2pdb's line assembly, _format_atomname and _format_xyz are translated from the current source on every run. Spec/C02.lean is a checker of the "
              "property's clauses (80 columns, every attribute in its columns, 8-column coordinates with the demanded number of decimals, read-back within half a unit "
              "of the printed precision, re-export). Proved so far: xyz_out_of_range_raises. Correspondence: every row is written into a real database, exported, re-parsed "
              "and re-exported; implementation = translated model text-for-text, and the Lean checker accepts every line; every multiple of 0.0005 in windows around all "
              "format-switch thresholds, range ends and powers of ten; every bundled PDB file's canonical records reproduced."),
        note=BASE_NOTE + "Assumed: CPython's '{:.kf}' is correctly rounded (= Py.fmtFixed); -0.0 not modelled.",
        technique='translated formatter validated differentially + Lean spec checker; width/round-trip theorems in progress',
        design_ref='DESIGN.md 5/C02'),
    'C09': dict(
        category='translation_validation',
        text=("The zone writer's line format and read_zone's line parser are translated from the current source on every run; zone lines for every printable chain "
              "character x residue numbers (negative, zero, 1-4 digits) go through the library's writer and reader, the translated pair, and the Spec (identity). "
              "Route agreement {fast,SQL} x {svd,quaternion} x {no zone, zone written, zone read} is compared on generated complexes (equal chains, rank-flipping side chains, "
              "incomplete decoys, negative numbering). Proved so far: zone_line_format. Known finding C09-F4 (chain '-') is reported as KNOWN-FINDING."),
        note=BASE_NOTE,
        technique='translated zone reader/writer validated differentially; route agreement by metamorphic comparison; round-trip theorem in progress',
        design_ref='DESIGN.md 5/C09'),
}

checks = []
for pid in ids:
    if pid in CLAIMED:
        c = CLAIMED[pid]
        checks.append({
            'property_id': pid,
            'quick_cmd': f'./check {pid} --tier quick',
            'thorough_cmd': f'./check {pid} --tier thorough',
            'evidence_file': f'evidence/{pid}.json',
            'replay_cmd_template': f'./check {pid} --replay {{path}}',
            'engine': 'lean4-proof+correspondence',
            'level_claimed': {'category': c['category'], 'text': c['text'], 'design_ref': c['design_ref']},
            'level_note': c['note'],
            'technique': c['technique'],
        })

manifest = {
    'version': 1,
    'setup_cmd': 'cd lean && lake build',
    'hooks': {
        'guard': 'PDB2SQL_VERIF',
        'enable': 'no repository hooks are used: all instrumentation (audit hooks, sqlite3 factory wrappers, syscall fault injection) lives in the harness under /verif/py',
        'baseline_off_cmd': 'cd /repo && /venv/bin/python -m pytest -ra -q -p no:cacheprovider --timeout=900 --continue-on-collection-errors',
        'source_commits': [],
        'add_only': True,
    },
    'engines': [
        {'name': 'lean4-proof+correspondence', 'path': 'lean/ (Lean 4 project PdbVerif) + py/ (translator, harness, check driver)',
         'serves_properties': sorted(CLAIMED),
         'kind_free_text': 'machine-checked proof in Lean 4 about a model regenerated from the source (py/translate.py) or hand-written and tied by a differential correspondence run'}],
    'checks': checks,
    'not_applicable': [{'property_id': p, 'reason': 'check under construction in this round; not claimed until its model, theorems and correspondence run exist'}
                       for p in ids if p not in CLAIMED],
    'notes': 'See DESIGN.md. Fix commits made in /repo are listed in known_findings.json ("fixed:" entries).',
}
json.dump(manifest, open(os.path.join(VERIF, 'MANIFEST.json'), 'w'), indent=1)
print('claimed', sorted(CLAIMED), 'not_applicable', len(manifest['not_applicable']))
