#!/usr/bin/env python3
"""Regenerate /verif/MANIFEST.json from the table below (run after adding a property check)."""
import json, os

VERIF = os.path.dirname(os.path.dirname(os.path.abspath(__file__)))
props = [json.loads(l) for l in open(os.path.join(VERIF, 'properties.jsonl'))]
ids = [p['id'] for p in props]

BASE_NOTE = ("Trusted: Lean 4.33 kernel; axioms propext/Classical.choice/Quot.sound only (audited every run); Mathlib as installed; "
             "the translator py/translate.py and the correspondence harness + Lean JSON drivers; CPython int/float/format/round, "
             "NumPy (svd/eig/det/mean/dot/trig) and SQLite are modelled as contracts and compared on samples; IEEE-754 rounding of "
             "the numeric kernels is sampled, not proved. ")

# id -> dict(category, text, note, technique, design_ref)
CLAIMED = {
    'C12': dict(
        category='proof',
        text=("compute_CapriClass and compute_DockQScore are translated from the current source to Lean on every run (Gen/Score.lean). "
              "Theorems (Props/C12.lean), for every input over any linear order / every rational: the cascade equals the published table "
              "criterion by criterion (capri_eq_table), is total with ordered thresholds (capri_total), equals the best class whose requirement "
              "holds (capri_eq_best_class, capri_concrete for the literals in the source), never worsens when a measure improves (capri_monotone); "
              "DockQ equals its formula (dockq_formula), lies in [0,1] (dockq_range), is 1 for a perfect model (dockq_perfect), is monotone "
              "(dockq_monotone) -- range and monotonicity for every rounding function that is monotone and exact on 0..3, and binary64 "
              "round-to-nearest-even is proved to be one (flok_toDouble, dockq_range_binary64, dockq_monotone_binary64), i.e. for the floating-point evaluation order in the source. Correspondence: all 343 threshold cells (exhaustive), the doubles adjacent to "
              "every threshold, random points; DockQ compared bit-exactly against the translated formula evaluated with binary64 rounding."),
        note=BASE_NOTE + "Assumed: Py.toDouble is IEEE binary64 rounding (validated bit-exactly on every sampled DockQ point; subnormals/overflow not modelled); C pow(x,2.0) = correctly rounded x*x.",
        technique='Lean 4 theorems over the translated source + exhaustive threshold-cell correspondence',
        design_ref='DESIGN.md 5/C12'),
    'C01': dict(
        category='proof',
        text=("The record loop's tables and fallbacks (col, delimiter, blank-field defaults, ATOM/ENDMDL prefixes, _format_pdb_linelength, _get_chainID, "
              "_get_element) are translated from the current source on every run; Model/Parse.lean follows the loop and read_pdb's seven input forms; "
              "Spec/C01.lean is the property's own column table and rules. Theorems (Props/C01.lean, 25): the source's column table IS the wwPDB table of the statement "
              "(delimiter_is_wwpdb), every slice is the stated columns (slice_is_columns), the chain/element fallbacks are the documented rules (get_chainID_spec, "
              "get_element_spec, element_unpadded), for EVERY string the modelled record parser equals the property's parseRecord (parse_fields) and for every list of lines "
              "the table equals one row per ATOM record in input order with the model counter (parse_rows, atom_records_in_order, rows_count, other_records_ignored), "
              "unrepresentable text makes the whole parse an error (too_long_raises, nonnumeric_raises, blank_chain_blank_seg_raises, no_silent_alteration), and every accepted "
              "container of the same text gives the same table (readlines_eq_split, container_independent). Correspondence: implementation vs Model vs Spec on generated records "
              "(every field widest/narrowest/blank, every name alignment, truncated lines, interleaved records, malformed stream, per-column probes) x the container forms."),
        note=BASE_NOTE + "Assumed: int()/float() on the modelled decimal grammar; SQLite stores what it is given; the hand model of the record loop is tied by the translator's shape check of the loop and by the correspondence run.",
        technique='Lean 4 theorems (model = spec for all strings) over translated tables/fallbacks + differential correspondence of the hand-modelled loop',
        design_ref='DESIGN.md 5/C01, 12'),
    'C02': dict(
        category='proof',
        text=("data2pdb's line assembly, _format_atomname and _format_xyz are translated from the current source on every run. Spec/C02.lean is a checker of the "
              "property's clauses. Theorems (Props/C02.lean, 17): every coordinate in range is written in exactly 8 columns (xyz_width) with three decimals in (-999.5, 9999.5) and "
              "never fewer than the property demands elsewhere (xyz_precision, xyz_precision_general), out-of-range raises (xyz_out_of_range_raises, line_out_of_range_raises); for every "
              "row that fits its fields the line is 80 columns with every attribute in its wwPDB columns incl. the name alignment (line_width, line_columns); parsing the exported line gives "
              "the row back within half a unit of the printed precision / 0.005 and identical text attributes (roundtrip, roundtrip_row_fits, int_roundtrip, float_roundtrip); re-export "
              "(reexport_ok, reexport_same_value_partial: exact same values except at the thresholds 999999.5 / -99999.5 where the second export has fewer decimals). "
              "Correspondence: every row is written into a real database, exported, re-parsed and re-exported; implementation = translated model text for text and the Lean checker accepts "
              "every line; every multiple of 0.0005 around all switch thresholds, range ends and powers of ten; bundled and synthetic canonical records reproduced."),
        note=BASE_NOTE + "Assumed: CPython's '{:.kf}' is correctly rounded (= Py.fmtFixed, compared on every sample); -0.0 not modelled; canonical_reproduced is checked on files, not proved.",
        technique='Lean 4 theorems over the translated formatter (width, columns, round trip for all rows that fit) + differential correspondence',
        design_ref='DESIGN.md 5/C02, 12'),
    'C09': dict(
        category='proof',
        text=("The zone writer's line format and read_zone's line parser are translated from the current source on every run. Theorems (Props/C09.lean): for every chain character other "
              "than '-'/blank and EVERY integer residue number the written line is read back as exactly that residue (read_write_zone, read_write_zone_file), the format itself "
              "(zone_line_format), and the recorded counterexample for chain '-' (known finding C09-F4, reported as KNOWN-FINDING). get_izone_rowID now calls read_zone (fix commit), so one "
              "reader serves every routine. Route agreement {fast,SQL} x {svd,quaternion} x {no zone, zone written, zone read} is a metamorphic comparison on generated complexes (equal chains, "
              "rank-flipping side chains, incomplete decoys, negative numbering, mirror-image decoys) - sampled, not proved here (the pairing theorems of C07/C08 state it per route)."),
        note=BASE_NOTE + "Route agreement is sampled; values compared after the library's own rounding.",
        technique='Lean 4 theorem (zone round trip for all chains/numbers) over the translated reader/writer + metamorphic route comparison',
        design_ref='DESIGN.md 5/C09, 12'),
    'C16': dict(
        category='proof',
        text=("Every routine is modelled as an effect program (a tree of file actions whose continuation is a function of what was observed; parsing, zones and scores uninterpreted), "
              "with a role per path and an interleaving semantics (one action of one task per step; a schedule is any list of task indices). Theorems (Props/C16.lean): decided on the "
              "effect list regenerated from the source on every run - no shell, no literal scratch name, zone files published by one os.replace (source_no_shell, source_no_literal_scratch, "
              "source_zone_published_by_replace); for every routine, option and branch the footprint is inputs + requested outputs + the zone cache + an own temp that is gone at the end "
              "(footprint_sound); unrelated files unchanged, inputs unchanged, value and zone left behind identical for any two directories agreeing on inputs and cache (frame_fs, inputs_unchanged, "
              "depends_on_args_only); for ANY number of computations in one directory and EVERY schedule each finished task has exactly its solo value or exception, incl. routines sharing one zone-file "
              "cache over one reference (noninterference, noninterference_every_schedule - rely/guarantee invariant by induction on the schedule); regressions: the old in-place writer and the old fixed-name "
              "scratch database interfere (inplace_write_counterexample, fixed_scratch_counterexample). Tie to the code: audit-hook effect traces of all 13 routines x options in empty and pre-seeded "
              "directories compared with the model's traces and judged by the Spec; directory snapshots; a deterministic scheduler enumerates interleavings of real runs at file-operation granularity "
              "(supporting exploration) and replays schedules in the Lean model."),
        note=BASE_NOTE + "Not proved: os.replace atomic, one audited call indivisible, SQLite's own I/O; a routine that only READS a shared zone file while another publishes it; the zone round trip enters as a hypothesis (proved separately as C09 read_write_zone_file).",
        technique='Lean 4 proof over all schedules of an effect-program model + effect-trace correspondence (audit hooks) + enumerated interleavings of real runs',
        design_ref='DESIGN.md 5/C16, 12'),
    'C20': dict(
        category='proof',
        text=("Store model: disk image per path, session with pending changes, rollback journal; DDL published at once when nothing is pending, DML pending until commit; paths abstract (the model "
              "cannot inspect a name). Theorems (Props/C20.lean): for every scenario and every crash point a fresh reader finds exactly the last committed state - no atoms or a complete table, never a part "
              "(crash_atomic, crash_never_partial, crash_atomic_after_open); close(keep) leaves exactly the table the object held (keep_leaves_table); close(remove) removes exactly that file and no other path "
              "is touched (remove_removes_exactly, victims_untouched); every action names only p or p-journal and none is a shell, decided on the effect list regenerated from the source "
              "(names_are_data; regression old_open_is_not_data). Tie to the code: scenarios create[,modify][,commit][,modify],close(keep|remove) read back by a stock sqlite3 connection; a kill before every "
              "statement/commit/close/remove/connect in forked children (fault enumeration), SIGKILL injected by strace inside SQLite's commit (thorough: every injection point of three scenarios); every file name "
              "of length <= 3 over the hostile alphabet (thorough; a seeded sample in quick) plus crafted names among hashed victim files with process spawning forbidden."),
        note=BASE_NOTE + "Trusted: SQLite's journal makes commit one atomic step and crash = rollback (exercised by the kills, not proved); the OS removes exactly the named file; open (remove old + connect) is one step in the model.",
        technique='Lean 4 proof over all crash points of a transactional store model + read-back correspondence + fault enumeration (process kills, strace injection) + hostile file names',
        design_ref='DESIGN.md 5/C20, 12'),
}

checks = []
for pid in ids:
    if pid in CLAIMED:
        c = CLAIMED[pid]
        checks.append({
            'property_id': pid,
            'quick_cmd': f'./check {pid} --tier quick',
            'thorough_cmd': f'./check {pid} --tier thorough',
            'evidence_file': f'evidence/{pid}.json',
            'replay_cmd_template': f'./check {pid} --replay {{path}}',
            'engine': 'lean4-proof+correspondence',
            'level_claimed': {'category': c['category'], 'text': c['text'], 'design_ref': c['design_ref']},
            'level_note': c['note'],
            'technique': c['technique'],
        })

manifest = {
    'version': 1,
    'setup_cmd': 'cd lean && lake build',
    'hooks': {
        'guard': 'PDB2SQL_VERIF',
        'enable': 'no repository hooks are used: all instrumentation (audit hooks, sqlite3 factory wrappers, syscall fault injection) lives in the harness under /verif/py',
        'baseline_off_cmd': 'cd /repo && /venv/bin/python -m pytest -ra -q -p no:cacheprovider --timeout=900 --continue-on-collection-errors',
        'source_commits': [],
        'add_only': True,
    },
    'engines': [
        {'name': 'lean4-proof+correspondence', 'path': 'lean/ (Lean 4 project PdbVerif) + py/ (translator, harness, check driver)',
         'serves_properties': sorted(CLAIMED),
         'kind_free_text': 'machine-checked proof in Lean 4 about a model regenerated from the source (py/translate.py) or hand-written and tied by a differential correspondence run'}],
    'checks': checks,
    'not_applicable': [{'property_id': p, 'reason': 'check under construction in this round; not claimed until its model, theorems and correspondence run exist'}
                       for p in ids if p not in CLAIMED],
    'notes': 'See DESIGN.md. Fix commits made in /repo are listed in known_findings.json ("fixed:" entries).',
}
json.dump(manifest, open(os.path.join(VERIF, 'MANIFEST.json'), 'w'), indent=1)
print('claimed', sorted(CLAIMED), 'not_applicable', len(manifest['not_applicable']))
