#!/bin/bash
# recheck_seeds.sh <parallelism> <seed-id> ...: run the property's check of each seeded change against the COMMITTED /verif
# (tools/muttest.sh) and rewrite confirmed.checks_run in its meta.json (the first result is kept as confirmed.first_run).
P=$1; shift
one() {
  SID=$1; ID=${SID%%-*}
  R=$( /verif/tools/muttest.sh /verif/seeded/$SID/patch.diff $ID 2>/dev/null | grep -E "VIOLATION|exit=" | tr '\n' ' ')
  python3 - "/verif/seeded/$SID/meta.json" "$ID:[$R]" <<'PY'
import json,sys
p,res=sys.argv[1:3]
m=json.load(open(p)); c=m.setdefault('confirmed',{})
if 'first_run' not in c and c.get('checks_run') and c['checks_run']!=res and 'VIOLATION' not in c['checks_run']:
    c['first_run']=c['checks_run']
c['checks_run']=res
json.dump(m,open(p,'w'),indent=1)
PY
  echo "$SID $R" | cut -c1-200
}
export -f one
printf '%s\n' "$@" | xargs -P $P -I{} bash -c 'one {}'
