#!/usr/bin/env python3
"""
coverage_map.py -- which functions of /repo/pdb2sql/*.py are inside the model, and how.

For every function/method definition of the library (ast), reports
  * its size (statements, source lines),
  * the generated units that quote it (Gen/*.lean: a unit's doc comment names the Python function it was translated from,
    and the translated statements are quoted as `--   <source>` comment lines),
  * the share of its statements whose unparsed text (first line) is quoted in some Gen file,
  * the theorems in Props/*K*.lean / Props/*.lean whose name mentions the function.
It reads the tree named by PDB2SQL_REPO (default /repo) and /verif/lean/PdbVerif/Gen as it is now (run the translator first).
Output: a Markdown table on stdout and /verif/evidence/coverage_map.json (not an evidence file of a property; informational).
"""
import ast, os, re, sys, json, glob

VERIF = os.path.dirname(os.path.dirname(os.path.abspath(__file__)))
REPO = os.environ.get('PDB2SQL_REPO', '/repo')
GEN = os.path.join(VERIF, 'lean', 'PdbVerif', 'Gen')
PROPS = os.path.join(VERIF, 'lean', 'PdbVerif', 'Props')


def norm(s):
    return re.sub(r'\s+', ' ', s.strip())


def gen_quotes():
    """quoted source lines and unit docs per Gen file"""
    quoted, docs = {}, {}
    for path in sorted(glob.glob(os.path.join(GEN, '*.lean'))):
        name = os.path.basename(path)
        unit = None
        for line in open(path):
            m = re.match(r'\s*-- «unit:([^»]+)»', line)
            if m:
                unit = m.group(1)
                continue
            m = re.match(r'\s*--\s{2,}(\S.*)$', line)
            if m:
                quoted.setdefault(norm(m.group(1)), set()).add((name, unit))
            for fn in re.findall(r'`([A-Za-z_][\w.]*)`', line):
                docs.setdefault(fn.split('.')[-1], set()).add((name, unit))
    return quoted, docs


def stmts(fn):
    out = []
    for node in ast.walk(fn):
        if isinstance(node, ast.stmt) and node is not fn:
            if isinstance(node, ast.Expr) and isinstance(getattr(node, 'value', None), ast.Constant) and isinstance(node.value.value, str):
                continue                       # docstring
            if isinstance(node, (ast.FunctionDef, ast.ClassDef)):
                continue
            out.append(node)
    return out


def first_line(node):
    try:
        return norm(ast.unparse(node).split('\n')[0])
    except Exception:
        return ''


def theorem_names():
    names = []
    for path in sorted(glob.glob(os.path.join(PROPS, '*.lean'))):
        for line in open(path):
            m = re.match(r'\s*theorem\s+([^\s:({\[]+)', line)
            if m:
                names.append((os.path.basename(path)[:-5], m.group(1)))
    return names


def main():
    quoted, docs = gen_quotes()
    thms = theorem_names()
    rows = []
    for path in sorted(glob.glob(os.path.join(REPO, 'pdb2sql', '*.py'))):
        mod = os.path.basename(path)[:-3]
        if mod.startswith('__'):
            continue
        src = open(path).read()
        tree = ast.parse(src)
        srclines = src.split('\n')

        def visit(node, prefix):
            for ch in ast.iter_child_nodes(node):
                if isinstance(ch, ast.ClassDef):
                    visit(ch, prefix + [ch.name])
                elif isinstance(ch, ast.FunctionDef):
                    ss = stmts(ch)
                    hit, files = 0, set()
                    for s in ss:
                        fl = first_line(s)
                        raw = norm(srclines[s.lineno - 1])
                        q = quoted.get(fl) or quoted.get(raw)
                        if q:
                            hit += 1
                            files |= {f for f, _ in q}
                    d = docs.get(ch.name, set())
                    units = sorted({u for _, u in d if u})
                    tn = [f'{f}.{n}' for f, n in thms if ch.name.strip('_').lower() in n.lower()]
                    rows.append({'module': mod, 'function': '.'.join(prefix + [ch.name]), 'lines': ch.end_lineno - ch.lineno + 1,
                                 'statements': len(ss), 'quoted': hit, 'gen_files': sorted(files | {f for f, _ in d}),
                                 'units': units[:12], 'theorems': tn[:8], 'n_theorems': len(tn)})
                    visit(ch, prefix + [ch.name])
        visit(tree, [])
    tot_s = sum(r['statements'] for r in rows)
    tot_q = sum(r['quoted'] for r in rows)
    print(f'| module | function | stmts | quoted in Gen | Gen files | theorems naming it |')
    print('|---|---|---|---|---|---|')
    for r in rows:
        print(f"| {r['module']} | `{r['function']}` | {r['statements']} | {r['quoted']} | {', '.join(r['gen_files'])} | {r['n_theorems']} |")
    print(f'\nstatements in the library: {tot_s}; quoted verbatim (first line) in generated Lean: {tot_q} ({100 * tot_q // max(1, tot_s)}%)')
    nofn = [r['module'] + '.' + r['function'] for r in rows if not r['gen_files']]
    print('functions no generated unit mentions: ' + ', '.join(nofn))
    os.makedirs(os.path.join(VERIF, 'evidence'), exist_ok=True)
    json.dump({'rows': rows, 'statements': tot_s, 'quoted': tot_q, 'not_mentioned': nofn},
              open(os.path.join(VERIF, 'coverage_map.json'), 'w'), indent=1)


if __name__ == '__main__':
    main()
