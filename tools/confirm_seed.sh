#!/bin/bash
# confirm_seed.sh <srcdir with patch.diff demo.py meta.json> <seed-id> <check ids...>
# Confirms in a scratch worktree: demo passes on the unchanged tree, the repository's tests give the baseline result with
# the patch, the demo fails with the patch; runs the named checks against the patched tree; stores everything under /verif/seeded/<seed-id>/.
set -u
SRC=$(readlink -f "$1"); SID=$2; shift 2
W=$(mktemp -d /tmp/confirm.XXXXXX)
git -C /repo worktree add -q --detach "$W/repo" HEAD || exit 3
cd "$W/repo"
/venv/bin/python "$SRC/demo.py" > "$W/demo_clean.txt" 2>&1; D0=$?
if ! git apply "$SRC/patch.diff"; then echo "PATCH DOES NOT APPLY to current HEAD"; cd /; git -C /repo worktree remove --force "$W/repo"; rm -rf "$W"; exit 3; fi
T=$(/venv/bin/python -m pytest -q -p no:cacheprovider --timeout=900 test 2>&1 | tail -1)
/venv/bin/python "$SRC/demo.py" > "$W/demo_patched.txt" 2>&1; D1=$?
cd /
echo "demo on unchanged tree: exit $D0; tests with patch: $T; demo with patch: exit $D1"
OK=1; [ $D0 -eq 0 ] || OK=0; [ $D1 -ne 0 ] || OK=0; echo "$T" | grep -q "3 failed, 101 passed" || OK=0
CAUGHT=""
for ID in "$@"; do
  R=$( /verif/tools/muttest.sh "$SRC/patch.diff" "$ID" 2>/dev/null | grep -E "VIOLATION|exit=" | tr '\n' ' ')
  echo "  check $ID: $R"
  CAUGHT="$CAUGHT $ID:[$R]"
done
if [ $OK -eq 1 ]; then
  mkdir -p /verif/seeded/$SID
  cp "$SRC/patch.diff" "$SRC/demo.py" /verif/seeded/$SID/
  python3 - "$SRC/meta.json" "/verif/seeded/$SID/meta.json" "$D0" "$T" "$D1" "$CAUGHT" <<'PY'
import json,sys
src,dst,d0,t,d1,caught=sys.argv[1:7]
m=json.load(open(src))
m['confirmed']={'demo_exit_unchanged':int(d0),'tests_with_patch':t,'demo_exit_patched':int(d1),'checks_run':caught.strip()}
json.dump(m,open(dst,'w'),indent=1)
PY
  echo "KEPT as /verif/seeded/$SID"
else
  echo "NOT KEPT"
fi
git -C /repo worktree remove --force "$W/repo"; rm -rf "$W"
